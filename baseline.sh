#!/bin/bash
# runs the repository's own test suite with the verif guard OFF and compares with /root/.vp/BASELINE.json
cd /repo || exit 2
export GOFLAGS=-mod=mod
out=$(mktemp)
for m in . ./client ./server; do (cd $m && go test -json -vet=off -count=1 -timeout 25m ./... 2>/dev/null); done > $out
python3 - "$out" <<'PY'
import json,sys
base=json.load(open('/root/.vp/BASELINE.json'))['stable_pass']
res={}
for l in open(sys.argv[1]):
    try: d=json.loads(l)
    except Exception: continue
    if d.get('Test') and d.get('Action') in ('pass','fail'):
        res[d['Package']+'::'+d['Test']]=d['Action']
missing=[t for t in base if res.get(t)!='pass']
print(f"baseline: {len(base)-len(missing)}/{len(base)} stable tests pass")
for t in missing: print("NOT PASSING:",t,res.get(t))
sys.exit(1 if missing else 0)
PY
rc=$?
rm -f $out
exit $rc
