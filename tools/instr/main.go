// instr rewrites selected orda source files and emits a `go build -overlay` JSON.
//
// Rewrites (see DESIGN.md §3.2):
//  1. every `for k, v := range m` whose operand has map type (decided by go/types) becomes an
//     iteration over verifrt.MapKeys(m, site): key order is owned by the harness.
//  2. client/pkg/internal/datatypes/transaction.go: import "sync" -> verifrt/vsync (gated RWMutex).
//  3. client/pkg/log: loggers are created silent unless VERIF_LOG is set.
//
// It also maps the virtual package client/pkg/verifrt (+ vsync) into the client module.
//
// usage: instr -repo /repo -rt /verif/h/verifrt_src -out <scratchdir>
package main

import (
	"bytes"
	"encoding/json"
	"flag"
	"fmt"
	"go/ast"
	"go/format"
	"go/token"
	"go/types"
	"os"
	"path/filepath"
	"sort"
	"strings"

	"golang.org/x/tools/go/ast/astutil"
	"golang.org/x/tools/go/packages"
)

const rtPath = "github.com/orda-io/orda/client/pkg/verifrt"

type report struct {
	GoSites       []string `json:"go_sites"`
	MapRangeSites []string `json:"map_range_sites"`
	Skipped       []string `json:"skipped"`
	VsyncFiles    []string `json:"vsync_files"`
	QuietLog      bool     `json:"quiet_log"`
	StmtPoints    int      `json:"stmt_points"`
	StmtFiles     []string `json:"stmt_point_files"`
}

func main() {
	repo := flag.String("repo", "/repo", "repository root")
	rt := flag.String("rt", "", "directory with verifrt sources")
	out := flag.String("out", "", "scratch output directory")
	tags := flag.String("tags", "verif", "build tags")
	flag.Parse()
	if *out == "" || *rt == "" {
		fmt.Fprintln(os.Stderr, "need -out and -rt")
		os.Exit(2)
	}
	must(os.MkdirAll(*out, 0o755))
	overlay := map[string]string{}
	rep := &report{}

	// virtual runtime package
	must(filepath.Walk(*rt, func(p string, info os.FileInfo, err error) error {
		if err != nil || info.IsDir() {
			return err
		}
		rel, _ := filepath.Rel(*rt, p)
		if !strings.HasSuffix(rel, ".go") {
			return nil
		}
		overlay[filepath.Join(*repo, "client/pkg/verifrt", rel)] = p
		return nil
	}))

	fset := token.NewFileSet()
	load := func(dir string, patterns ...string) []*packages.Package {
		cfg := &packages.Config{
			Mode: packages.NeedName | packages.NeedFiles | packages.NeedCompiledGoFiles | packages.NeedSyntax |
				packages.NeedTypes | packages.NeedTypesInfo | packages.NeedImports,
			Dir:        dir,
			Fset:       fset,
			BuildFlags: []string{"-tags=" + *tags},
			Env:        append(os.Environ(), "GOFLAGS=-mod=mod", "GOPROXY=off", "GOSUMDB=off", "GOTOOLCHAIN=local"),
		}
		pkgs, err := packages.Load(cfg, patterns...)
		must(err)
		return pkgs
	}
	var pkgs []*packages.Package
	pkgs = append(pkgs, load(filepath.Join(*repo, "client"),
		"./pkg/orda", "./pkg/internal/datatypes", "./pkg/internal/managers", "./pkg/log",
		"./pkg/types", "./pkg/utils", "./pkg/operations", "./pkg/model", "./pkg/context", "./pkg/errors")...)
	pkgs = append(pkgs, load(filepath.Join(*repo, "server"),
		"./service", "./snapshot", "./mongodb", "./schema", "./utils", "./notification", "./managers",
		"./redis", "./admin", "./wrapper")...)

	n := 0
	for _, pkg := range pkgs {
		if len(pkg.Errors) > 0 {
			for _, e := range pkg.Errors {
				fmt.Fprintln(os.Stderr, "load error:", e)
			}
			os.Exit(1)
		}
		for i, f := range pkg.Syntax {
			fn := pkg.CompiledGoFiles[i]
			if strings.HasSuffix(fn, "_test.go") || strings.HasSuffix(fn, ".pb.go") ||
				strings.HasSuffix(fn, ".pb.gw.go") || strings.Contains(fn, "/verifrt/") {
				continue
			}
			changed := false
			if rewriteMapRanges(fset, pkg, f, fn, *repo, rep) {
				astutil.AddImport(fset, f, rtPath)
				changed = true
			}
			if goGated(fn) && rewriteGoStmts(fset, f, fn, *repo, rep) {
				astutil.AddImport(fset, f, rtPath)
				changed = true
			}
			if stmtPointed(fn) && rewriteStmtPoints(fset, pkg, f, fn, *repo, rep) {
				astutil.AddImport(fset, f, rtPath)
				changed = true
			}
			if strings.HasSuffix(fn, "client/pkg/internal/datatypes/transaction.go") || strings.HasSuffix(fn, "client/pkg/internal/datatypes/wired.go") ||
				strings.HasSuffix(fn, "server/utils/local_lock.go") {
				if astutil.RewriteImport(fset, f, "sync", rtPath+"/vsync") {
					// keep the package name `sync` for selectors
					for _, im := range f.Imports {
						if im.Path.Value == `"`+rtPath+`/vsync"` {
							im.Name = ast.NewIdent("sync")
						}
					}
					rep.VsyncFiles = append(rep.VsyncFiles, rel(*repo, fn))
					changed = true
				}
			}
			if strings.HasSuffix(fn, "client/pkg/log/logging.go") {
				if quietLog(f) {
					rep.QuietLog = true
					changed = true
				}
			}
			if !changed {
				continue
			}
			var buf bytes.Buffer
			must(format.Node(&buf, fset, f))
			n++
			dst := filepath.Join(*out, fmt.Sprintf("f%03d_%s", n, filepath.Base(fn)))
			must(os.WriteFile(dst, buf.Bytes(), 0o644))
			overlay[fn] = dst
		}
	}
	sort.Strings(rep.MapRangeSites)
	ov, _ := json.MarshalIndent(map[string]interface{}{"Replace": overlay}, "", " ")
	must(os.WriteFile(filepath.Join(*out, "overlay.json"), ov, 0o644))
	rj, _ := json.MarshalIndent(rep, "", " ")
	must(os.WriteFile(filepath.Join(*out, "instr_report.json"), rj, 0o644))
	fmt.Printf("instr: %d files rewritten, %d map-range sites, %d skipped\n", n, len(rep.MapRangeSites), len(rep.Skipped))
}

func rel(repo, fn string) string {
	r, err := filepath.Rel(repo, fn)
	if err != nil {
		return fn
	}
	return r
}

func must(err error) {
	if err != nil {
		fmt.Fprintln(os.Stderr, "instr:", err)
		os.Exit(1)
	}
}

func pure(e ast.Expr) bool {
	switch x := e.(type) {
	case *ast.Ident:
		return true
	case *ast.SelectorExpr:
		return pure(x.X)
	case *ast.ParenExpr:
		return pure(x.X)
	}
	return false
}

func orderedKey(t types.Type) bool {
	b, ok := t.Underlying().(*types.Basic)
	if !ok {
		return false
	}
	return b.Info()&(types.IsInteger|types.IsFloat|types.IsString) != 0
}

func rewriteMapRanges(fset *token.FileSet, pkg *packages.Package, f *ast.File, fn, repo string, rep *report) bool {
	changed := false
	cnt := 0
	astutil.Apply(f, func(c *astutil.Cursor) bool {
		rs, ok := c.Node().(*ast.RangeStmt)
		if !ok {
			return true
		}
		tv, ok := pkg.TypesInfo.Types[rs.X]
		if !ok {
			return true
		}
		mt, ok := tv.Type.Underlying().(*types.Map)
		if !ok {
			return true
		}
		pos := fset.Position(rs.Pos())
		site := fmt.Sprintf("%s:%d", rel(repo, fn), pos.Line)
		_, labeled := c.Parent().(*ast.LabeledStmt)
		if (!pure(rs.X) && labeled) || !orderedKey(mt.Key()) || (rs.Tok != token.DEFINE && rs.Key != nil) {
			rep.Skipped = append(rep.Skipped, site)
			return true
		}
		cnt++
		var wrap *ast.AssignStmt
		if !pure(rs.X) {
			tmp := ast.NewIdent(fmt.Sprintf("verifM%d", cnt))
			wrap = &ast.AssignStmt{Lhs: []ast.Expr{tmp}, Tok: token.DEFINE, Rhs: []ast.Expr{rs.X}}
			rs.X = tmp
		}
		keyName := fmt.Sprintf("verifK%d", cnt)
		if id, ok := rs.Key.(*ast.Ident); ok && id.Name != "_" {
			keyName = id.Name
		}
		okName := fmt.Sprintf("verifOk%d", cnt)
		var pre []ast.Stmt
		valIdent := "_"
		if id, ok := rs.Value.(*ast.Ident); ok && id.Name != "_" {
			valIdent = id.Name
		}
		lookup := &ast.IndexExpr{X: rs.X, Index: ast.NewIdent(keyName)}
		pre = append(pre, &ast.AssignStmt{
			Lhs: []ast.Expr{ast.NewIdent(valIdent), ast.NewIdent(okName)},
			Tok: token.DEFINE,
			Rhs: []ast.Expr{lookup},
		})
		pre = append(pre, &ast.IfStmt{
			Cond: &ast.UnaryExpr{Op: token.NOT, X: ast.NewIdent(okName)},
			Body: &ast.BlockStmt{List: []ast.Stmt{&ast.BranchStmt{Tok: token.CONTINUE}}},
		})
		call := &ast.CallExpr{
			Fun:  &ast.SelectorExpr{X: ast.NewIdent("verifrt"), Sel: ast.NewIdent("MapKeys")},
			Args: []ast.Expr{rs.X, &ast.BasicLit{Kind: token.STRING, Value: fmt.Sprintf("%q", site)}},
		}
		rs.Key = ast.NewIdent("_")
		rs.Value = ast.NewIdent(keyName)
		rs.Tok = token.DEFINE
		rs.X = call
		rs.Body.List = append(pre, rs.Body.List...)
		rep.MapRangeSites = append(rep.MapRangeSites, site)
		changed = true
		if wrap != nil {
			c.Replace(&ast.BlockStmt{List: []ast.Stmt{wrap, rs}})
			return false
		}
		return true
	}, nil)
	return changed
}

// quietLog inserts, in func New() of package log, right after `logger := logrus.New()`:
//
//	if os.Getenv("VERIF_LOG") == "" { logger.SetLevel(logrus.PanicLevel) }
func quietLog(f *ast.File) bool {
	for _, d := range f.Decls {
		fd, ok := d.(*ast.FuncDecl)
		if !ok || fd.Name.Name != "New" || fd.Recv != nil || fd.Body == nil {
			continue
		}
		for i, st := range fd.Body.List {
			as, ok := st.(*ast.AssignStmt)
			if !ok || len(as.Lhs) != 1 {
				continue
			}
			id, ok := as.Lhs[0].(*ast.Ident)
			if !ok || id.Name != "logger" {
				continue
			}
			ifst := &ast.IfStmt{
				Cond: &ast.BinaryExpr{
					X: &ast.CallExpr{
						Fun:  &ast.SelectorExpr{X: ast.NewIdent("os"), Sel: ast.NewIdent("Getenv")},
						Args: []ast.Expr{&ast.BasicLit{Kind: token.STRING, Value: `"VERIF_LOG"`}},
					},
					Op: token.EQL,
					Y:  &ast.BasicLit{Kind: token.STRING, Value: `""`},
				},
				Body: &ast.BlockStmt{List: []ast.Stmt{&ast.ExprStmt{X: &ast.CallExpr{
					Fun:  &ast.SelectorExpr{X: ast.NewIdent("logger"), Sel: ast.NewIdent("SetLevel")},
					Args: []ast.Expr{&ast.SelectorExpr{X: ast.NewIdent("logrus"), Sel: ast.NewIdent("PanicLevel")}},
				}}}},
			}
			nl := append([]ast.Stmt{}, fd.Body.List[:i+1]...)
			nl = append(nl, ifst)
			nl = append(nl, fd.Body.List[i+1:]...)
			fd.Body.List = nl
			return true
		}
	}
	return false
}

// goGated: packages whose `go` statements get a gate at the start of the new goroutine, so that a
// spawned goroutine never runs in parallel with its parent under the controlled scheduler.
// stmtPointed lists the files whose shared fields are read and written outside any lock (C20): every
// statement boundary becomes a scheduling point.
func stmtPointed(fn string) bool {
	if strings.Contains(fn, "server/mongodb/collection_") || strings.HasSuffix(fn, "server/mongodb/repository_mongo.go") {
		// the repository layer: a point before every statement that uses the receiver (the statement that issues the
		// database command) separates "the command's arguments were built" from "the command is issued"; the points
		// are sites "mongodb/<file>:<line>" and only scenarios that ask for them park there
		return true
	}
	return strings.HasSuffix(fn, "client/pkg/internal/datatypes/transaction.go") ||
		strings.HasSuffix(fn, "client/pkg/internal/datatypes/wired.go")
}

// Fields of the datatype structs that never change after construction, and methods that only read them:
// accesses to these do not need a scheduling point.
var stmtImmutable = map[string]bool{"ctx": true, "Key": true, "TypeOf": true, "wire": true, "mutex": true,
	"BaseDatatype": true, "TransactionDatatype": true, "WiredDatatype": true, "Datatype": true}
var stmtPure = map[string]bool{"L": true, "GetKey": true, "GetType": true, "GetCUID": true}

// rewriteStmtPoints inserts verifrt.Point("<file>:<line>") before every statement that directly reads or
// writes shared state of the receiver - a mutable field of `its`, or a method of `its` defined outside the
// statement-pointed files (its body has no points of its own) - and before every return statement (so
// that a caller's `its.x = its.f()` can be interrupted between f's last access and the store). Statements
// without such an access only compute on locals or call pointed functions: a switch before them is
// equivalent to a switch at the next point (partial-order reduction).
func rewriteStmtPoints(fset *token.FileSet, pkg *packages.Package, f *ast.File, fn, repo string, rep *report) bool {
	changed := false
	base := filepath.Base(fn)
	local := map[string]bool{} // methods declared in statement-pointed files of this package
	for i, pf := range pkg.Syntax {
		if !stmtPointed(pkg.CompiledGoFiles[i]) {
			continue
		}
		for _, d := range pf.Decls {
			if fd, ok := d.(*ast.FuncDecl); ok && fd.Recv != nil {
				local[fd.Name.Name] = true
			}
		}
	}
	if strings.Contains(fn, "server/mongodb/") {
		base = "mongodb/" + base
	}
	point := func(st ast.Stmt) ast.Stmt {
		site := fmt.Sprintf("%s:%d", base, fset.Position(st.Pos()).Line)
		return &ast.ExprStmt{X: &ast.CallExpr{
			Fun:  &ast.SelectorExpr{X: ast.NewIdent("verifrt"), Sel: ast.NewIdent("Point")},
			Args: []ast.Expr{&ast.BasicLit{Kind: token.STRING, Value: fmt.Sprintf("%q", site)}},
		}}
	}
	for _, d := range f.Decls {
		fd, ok := d.(*ast.FuncDecl)
		if !ok || fd.Body == nil || fd.Recv == nil || len(fd.Recv.List) == 0 || len(fd.Recv.List[0].Names) == 0 {
			continue
		}
		recv := fd.Recv.List[0].Names[0].Name
		shared := func(st ast.Stmt) bool {
			if _, ok := st.(*ast.ReturnStmt); ok {
				return true
			}
			found := false
			ast.Inspect(st, func(n ast.Node) bool {
				switch x := n.(type) {
				case *ast.BlockStmt:
					return ast.Node(x) == ast.Node(st) // nested blocks get their own points
				case *ast.FuncLit:
					return false
				case *ast.SelectorExpr:
					id, ok := x.X.(*ast.Ident)
					if !ok || id.Name != recv {
						return true
					}
					sel, ok := pkg.TypesInfo.Selections[x]
					if !ok {
						return true
					}
					switch sel.Kind() {
					case types.FieldVal:
						if !stmtImmutable[x.Sel.Name] {
							found = true
						}
					case types.MethodVal:
						if !local[x.Sel.Name] && !stmtPure[x.Sel.Name] {
							found = true
						}
					}
				}
				return true
			})
			return found
		}
		expand := func(list []ast.Stmt) []ast.Stmt {
			var out []ast.Stmt
			for _, st := range list {
				switch st.(type) {
				case *ast.DeclStmt, *ast.EmptyStmt, *ast.LabeledStmt:
				default:
					if st.Pos().IsValid() && shared(st) {
						out = append(out, point(st))
						rep.StmtPoints++
						changed = true
					}
				}
				out = append(out, st)
			}
			return out
		}
		skip := map[*ast.BlockStmt]bool{} // the "block" of a switch / select holds clauses, not statements
		ast.Inspect(fd.Body, func(n ast.Node) bool {
			switch b := n.(type) {
			case *ast.SwitchStmt:
				skip[b.Body] = true
			case *ast.TypeSwitchStmt:
				skip[b.Body] = true
			case *ast.SelectStmt:
				skip[b.Body] = true
			case *ast.BlockStmt:
				if skip[b] {
					return true
				}
				b.List = expand(b.List)
			case *ast.CaseClause:
				b.Body = expand(b.Body)
			case *ast.CommClause:
				b.Body = expand(b.Body)
			}
			return true
		})
	}
	if changed {
		rep.StmtFiles = append(rep.StmtFiles, rel(repo, fn))
	}
	return changed
}

func goGated(fn string) bool {
	for _, d := range []string{"client/pkg/internal/datatypes/", "client/pkg/internal/managers/", "server/service/", "server/snapshot/"} {
		if strings.Contains(fn, d) {
			return true
		}
	}
	return false
}

// rewriteGoStmts turns `go f(args)` into `{ fn, a0.. := f, args..; go func() { verifrt.GoStart(site); fn(a0..) }() }`
// (function value and arguments are still evaluated by the parent), and inserts the gate as the first
// statement of `go func() {...}()` literals without arguments.
func rewriteGoStmts(fset *token.FileSet, f *ast.File, fn, repo string, rep *report) bool {
	changed := false
	cnt := 0
	astutil.Apply(f, func(c *astutil.Cursor) bool {
		gs, ok := c.Node().(*ast.GoStmt)
		if !ok {
			return true
		}
		if _, labeled := c.Parent().(*ast.LabeledStmt); labeled {
			return true
		}
		site := fmt.Sprintf("%s:%d", rel(repo, fn), fset.Position(gs.Pos()).Line)
		gate := &ast.ExprStmt{X: &ast.CallExpr{
			Fun:  &ast.SelectorExpr{X: ast.NewIdent("verifrt"), Sel: ast.NewIdent("GoStart")},
			Args: []ast.Expr{&ast.BasicLit{Kind: token.STRING, Value: fmt.Sprintf("%q", site)}},
		}}
		if lit, ok := gs.Call.Fun.(*ast.FuncLit); ok && len(gs.Call.Args) == 0 {
			lit.Body.List = append([]ast.Stmt{gate}, lit.Body.List...)
			rep.GoSites = append(rep.GoSites, site)
			changed = true
			return true
		}
		cnt++
		fnId := ast.NewIdent(fmt.Sprintf("verifGoF%d", cnt))
		lhs := []ast.Expr{fnId}
		rhs := []ast.Expr{gs.Call.Fun}
		var callArgs []ast.Expr
		for i, a := range gs.Call.Args {
			id := ast.NewIdent(fmt.Sprintf("verifGoA%d_%d", cnt, i))
			lhs = append(lhs, id)
			rhs = append(rhs, a)
			callArgs = append(callArgs, id)
		}
		if gs.Call.Ellipsis.IsValid() {
			return true // variadic spread: leave alone
		}
		assign := &ast.AssignStmt{Lhs: lhs, Tok: token.DEFINE, Rhs: rhs}
		inner := &ast.FuncLit{
			Type: &ast.FuncType{Params: &ast.FieldList{}},
			Body: &ast.BlockStmt{List: []ast.Stmt{gate, &ast.ExprStmt{X: &ast.CallExpr{Fun: fnId, Args: callArgs}}}},
		}
		c.Replace(&ast.BlockStmt{List: []ast.Stmt{assign, &ast.GoStmt{Call: &ast.CallExpr{Fun: inner}}}})
		rep.GoSites = append(rep.GoSites, site)
		changed = true
		return false
	}, nil)
	return changed
}
