#!/bin/bash
# benign_all.sh <dir with B*/benign*.diff>  - runs the relevant quick tiers against every behaviour-preserving patch, from this
# copy of /verif (VERIF_DIR), each on its own scratch worktree of /repo HEAD; prints one line per (patch, check)
set -u
V=${VERIF_DIR:-/verif}; src=${1:-/tmp/benign_out}
CLIENT="C01 C02 C03 C04 C09 C10 C14 C15 C19 C20 C05 C07 C13 C18"
SERVER="C05 C06 C07 C08 C11 C12 C13 C16 C17 C18 C19"
for d in $src/B*/; do
  b=$(basename $d)
  case $b in B06|B07|B08|B09) cs=$SERVER;; *) cs=$CLIENT;; esac
  for p in $d/benign*.diff; do
    n=$(basename $p .diff); label=$b-$n
    wt=/var/tmp/alt/$label; out=/var/tmp/alt-out/$label; logs=/var/tmp/benign_logs; mkdir -p $logs /var/tmp/alt
    rm -rf $wt $out; git -C /repo worktree prune
    git -C /repo worktree add -q --detach $wt HEAD || continue
    if ! (cd $wt && git apply $p) 2>/dev/null; then echo "$label: patch does not apply to the current HEAD"; git -C /repo worktree remove --force $wt; continue; fi
    for c in $cs; do
      (cd $V && VERIF_DIR=$V VERIF_ALT_REPO=$wt VERIF_ALT_OUT=$out ./verif check $c quick > $logs/$label.$c.log 2>&1); rc=$?
      echo "$label $c rc=$rc viol=$(grep -c '^VIOLATION' $logs/$label.$c.log) $(grep -E '^(VIOLATION|BUILD|HARNESS)' $logs/$label.$c.log | head -2 | cut -c1-200 | tr '\n' ' ')"
    done
    git -C /repo worktree remove --force $wt; rm -rf $out
  done
done
echo ALL-DONE
