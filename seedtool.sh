#!/bin/bash
# seedtool.sh confirm <ID> [demo_dir]   - confirm a seeded change in its scratch worktree /tmp/seed/<ID>
# seedtool.sh run <ID> <check>...       - apply /verif/seeded/<ID>/patch.diff to /repo, run checks (quick), revert
set -u
export GOFLAGS=-mod=mod GOPROXY=off GOSUMDB=off
cmd=$1; id=$2; shift 2
case $cmd in
confirm)
  wt=/tmp/seed/$id; out=/tmp/seed_out/$id; demodir=${1:-client/pkg/orda}
  cd $wt || exit 2
  git diff > /tmp/seed_out/$id/patch.confirm.diff
  echo "== existing client tests with the change"; (cd client && go test -vet=off -count=1 ./... 2>&1 | grep -v "no test files" | tail -8)
  (cd server && go build ./... ) && echo "server builds"
  cp $out/demo_test.go $wt/$demodir/zz_seed_demo_test.go
  mod=$(echo $demodir | cut -d/ -f1)
  echo "== demo WITH the change (expect FAIL)"; (cd $mod && go test -vet=off -count=1 ./${demodir#*/}/ 2>&1 | grep -E "^(--- FAIL|FAIL|ok|PASS)" | head -5)
  git diff > /tmp/seed_out/$id/patch.tmp.diff; git apply -R /tmp/seed_out/$id/patch.tmp.diff
  echo "== demo WITHOUT the change (expect ok)"; (cd $mod && go test -vet=off -count=1 ./${demodir#*/}/ 2>&1 | grep -E "^(--- FAIL|FAIL|ok|PASS)" | head -5)
  git apply /tmp/seed_out/$id/patch.tmp.diff
  rm -f $wt/$demodir/zz_seed_demo_test.go
  git status --short
  ;;
run)
  p=/verif/seeded/$id/patch.diff
  cd /repo && git apply $p || { echo "patch does not apply"; exit 2; }
  for c in "$@"; do
    echo "== $c on seeded $id"; (cd /verif && ./verif check $c quick 2>&1 | grep -E "^(VIOLATION|KNOWN|run |HARNESS|BUILD)" | cut -c1-260)
  done
  cd /repo && git checkout -- . && git status --short | head -3
  ;;
esac
