#!/bin/bash
# seedtool.sh confirm <ID> [demo_dir]   - confirm a seeded change in its scratch worktree /tmp/seed/<ID>
# seedtool.sh run <ID> <check>...       - apply /verif/seeded/<ID>/patch.diff to /repo, run checks (quick), revert
# seedtool.sh runalt <ID> <check>...    - the same on a scratch worktree (VERIF_ALT_REPO), leaving /repo and /verif/evidence alone
set -u
export GOFLAGS=-mod=mod GOPROXY=off GOSUMDB=off
cmd=$1; id=$2; shift 2
case $cmd in
confirm)
  wt=/tmp/seed/$id; out=/tmp/seed_out/$id; demodir=${1:-client/pkg/orda}
  cd $wt || exit 2
  git diff > /tmp/seed_out/$id/patch.confirm.diff
  echo "== existing client tests with the change"; (cd client && go test -vet=off -count=1 ./... 2>&1 | grep -v "no test files" | tail -8)
  (cd server && go build ./... ) && echo "server builds"
  cp $out/demo_test.go $wt/$demodir/zz_seed_demo_test.go
  mod=$(echo $demodir | cut -d/ -f1)
  echo "== demo WITH the change (expect FAIL)"; (cd $mod && go test -vet=off -count=1 ./${demodir#*/}/ 2>&1 | grep -E "^(--- FAIL|FAIL|ok|PASS)" | head -5)
  git diff > /tmp/seed_out/$id/patch.tmp.diff; git apply -R /tmp/seed_out/$id/patch.tmp.diff
  echo "== demo WITHOUT the change (expect ok)"; (cd $mod && go test -vet=off -count=1 ./${demodir#*/}/ 2>&1 | grep -E "^(--- FAIL|FAIL|ok|PASS)" | head -5)
  git apply /tmp/seed_out/$id/patch.tmp.diff
  rm -f $wt/$demodir/zz_seed_demo_test.go
  git status --short
  ;;
run)
  p=/verif/seeded/$id/patch.diff
  cd /repo && git apply $p || { echo "patch does not apply"; exit 2; }
  for c in "$@"; do
    echo "== $c on seeded $id"; (cd /verif && ./verif check $c quick 2>&1 | grep -E "^(VIOLATION|KNOWN|run |HARNESS|BUILD)" | cut -c1-260)
  done
  cd /repo && git checkout -- . && git status --short | head -3
  ;;
runalt)
  # like run, but on a scratch worktree of /repo's HEAD: /repo itself is not touched (a check may be running on it)
  p=/verif/seeded/$id/patch.diff; wt=/var/tmp/alt/$id; out=/var/tmp/alt-out/$id
  rm -rf $wt $out; mkdir -p /var/tmp/alt $out
  git -C /repo worktree add -q --detach $wt HEAD || exit 2
  (cd $wt && git apply $p) || { echo "patch does not apply"; git -C /repo worktree remove --force $wt; exit 2; }
  for c in "$@"; do
    echo "== $c on seeded $id (scratch tree)"; (cd /verif && VERIF_ALT_REPO=$wt VERIF_ALT_OUT=$out ./verif check $c quick 2>&1 | grep -E "^(VIOLATION|KNOWN|run |HARNESS|BUILD)" | cut -c1-260)
  done
  git -C /repo worktree remove --force $wt; rm -rf $out
  ;;
esac
