#!/bin/bash
# benign.sh <patch.diff> <label> [checks...]  - apply a behaviour-preserving patch to a scratch worktree of /repo HEAD and run
# the quick tier of the given checks (default: all 20) against it; every VIOLATION line is a false alarm to investigate.
set -u
p=$1; label=$2; shift 2
checks=${*:-C01 C02 C03 C04 C05 C06 C07 C08 C09 C10 C11 C12 C13 C14 C15 C16 C17 C18 C19 C20}
wt=/var/tmp/alt/$label; out=/var/tmp/alt-out/$label; logs=/var/tmp/benign_logs; mkdir -p $logs /var/tmp/alt
rm -rf $wt $out; git -C /repo worktree prune
git -C /repo worktree add -q --detach $wt HEAD || exit 2
(cd $wt && git apply $p) || { echo "$label: patch does not apply"; git -C /repo worktree remove --force $wt; exit 2; }
for c in $checks; do
  (cd /verif && VERIF_ALT_REPO=$wt VERIF_ALT_OUT=$out ./verif check $c quick > $logs/$label.$c.log 2>&1); rc=$?
  echo "$label $c rc=$rc viol=$(grep -c '^VIOLATION' $logs/$label.$c.log) $(grep -E '^(VIOLATION|BUILD|HARNESS)' $logs/$label.$c.log | head -2 | cut -c1-200 | tr '\n' ' ')"
done
git -C /repo worktree remove --force $wt; rm -rf $out
