#!/bin/bash
# seedround.sh confirm <ID> <demo_pkg_dir> [test regex]  - confirm a round-3 seeded change in its scratch worktree /tmp/seed3/<ID>,
#                                                      then store it as /verif/seeded/<ID>r3
# seedround.sh run <ID>r3 <check>...                     - run quick checks against the stored seed on a scratch worktree (/repo untouched)
set -u
R=${SEEDR:-3}   # seeding round: worktrees /tmp/seed$R/<ID>, deliveries /tmp/seed${R}_out/<ID>, stored as /verif/seeded/<ID>r$R
export GOFLAGS=-mod=mod GOPROXY=off GOSUMDB=off
cmd=$1; id=$2; shift 2
case $cmd in
confirm)
  wt=/tmp/seed$R/$id; out=/tmp/seed${R}_out/$id; demodir=$1; rx=${2:-.}
  cd $wt || exit 2
  rm -f $wt/$demodir/zz_seed_demo_test.go
  git diff > $out/patch.confirm.diff
  if ! diff -q <(grep -v '^index ' $out/patch.diff) <(grep -v '^index ' $out/patch.confirm.diff) >/dev/null; then echo "NOTE: worktree diff differs from delivered patch.diff (using worktree diff)"; fi
  echo "== files: $(git diff --stat | tail -1)"
  echo "== existing client tests with the change"; (cd client && go test -vet=off -count=1 ./... 2>&1 | grep -v "no test files" | grep -v "^ok" | tail -8)
  (cd server && go build ./... ) && echo "server builds"
  (cd client && go build ./... ) && echo "client builds"
  cp $out/demo_test.go $wt/$demodir/zz_seed_demo_test.go
  mod=$(echo $demodir | cut -d/ -f1)
  echo "== demo WITH the change (expect FAIL)"; (cd $mod && timeout 600 go test ${DEMO_TAGS:+-tags $DEMO_TAGS} -vet=off -count=1 -run "$rx" ./${demodir#*/}/ 2>&1 | grep -E "^(--- FAIL|FAIL|ok|PASS|panic)" | head -5)
  git apply -R $out/patch.confirm.diff
  echo "== demo WITHOUT the change (expect ok)"; (cd $mod && timeout 600 go test ${DEMO_TAGS:+-tags $DEMO_TAGS} -vet=off -count=1 -run "$rx" ./${demodir#*/}/ 2>&1 | grep -E "^(--- FAIL|FAIL|ok|PASS|panic)" | head -5)
  git apply $out/patch.confirm.diff
  rm -f $wt/$demodir/zz_seed_demo_test.go
  git status --short
  d=/verif/seeded/${id}r$R; mkdir -p $d
  cp $out/patch.confirm.diff $d/patch.diff; cp $out/demo_test.go $d/demo_test.go; cp $out/meta.json $d/meta.json
  ;;
run)
  p=/verif/seeded/$id/patch.diff; wt=/var/tmp/alt/$id; out=/var/tmp/alt-out/$id
  rm -rf $wt $out; mkdir -p /var/tmp/alt $out
  git -C /repo worktree prune
  git -C /repo worktree add -q --detach $wt HEAD || exit 2
  (cd $wt && git apply $p) || { echo "patch does not apply"; git -C /repo worktree remove --force $wt; exit 2; }
  for c in "$@"; do
    echo "== $c on seeded $id (scratch tree)"; (cd /verif && VERIF_ALT_REPO=$wt VERIF_ALT_OUT=$out ./verif check $c quick 2>&1 | grep -E "^(VIOLATION|KNOWN|run |HARNESS|BUILD)" | cut -c1-260)
  done
  git -C /repo worktree remove --force $wt; rm -rf $out
  ;;
esac
