package w

import (
	gocontext "context"
	"encoding/json"
	"fmt"
	"testing"
	"testing/synctest"
	"time"

	"github.com/orda-io/orda/client/pkg/model"
	"google.golang.org/protobuf/proto"

	"verif/h/pt"
)

// C16: every well-formed request gets an answer; refused requests change nothing; clients survive
// error responses. Enumerates single (thorough: pairs of) mutations of valid requests.

type c16Params struct {
	Type  string `json:"type"`
	Pairs string `json:"pairs"` // "" = single mutations, "base" = 11 base mutations x all, "all" = all ordered pairs
}

// mutation edits a valid push-pull message in place; name identifies it.
type mutation struct {
	name string
	f    func(m *model.PushPullMessage, env *c16Env)
}

type c16Env struct {
	m       *e2Machine
	foreign string // id of another datatype (same collection)
	typ     string
	c1cuid  string
}

func c16Mutations() []mutation {
	pack := func(m *model.PushPullMessage) *model.PushPullPack { return m.PushPullPacks[0] }
	ms := []mutation{
		{"none", func(m *model.PushPullMessage, e *c16Env) {}},
		{"cuid-unknown", func(m *model.PushPullMessage, e *c16Env) { m.Cuid = "zzzzzzzzzzzzzzzz" }},
		{"cuid-empty", func(m *model.PushPullMessage, e *c16Env) { m.Cuid = "" }},
		{"cuid-other-client", func(m *model.PushPullMessage, e *c16Env) { m.Cuid = e.c1cuid }},
		{"collection-unknown", func(m *model.PushPullMessage, e *c16Env) { m.Collection = "nope" }},
		{"collection-other", func(m *model.PushPullMessage, e *c16Env) { m.Collection = "col2" }},
		{"collection-empty", func(m *model.PushPullMessage, e *c16Env) { m.Collection = "" }},
		{"duid-unknown", func(m *model.PushPullMessage, e *c16Env) { pack(m).DUID = "yyyyyyyyyyyyyyyy" }},
		{"duid-empty", func(m *model.PushPullMessage, e *c16Env) { pack(m).DUID = "" }},
		{"duid-foreign", func(m *model.PushPullMessage, e *c16Env) { pack(m).DUID = e.foreign }},
		{"key-unknown", func(m *model.PushPullMessage, e *c16Env) { pack(m).Key = "nokey" }},
		{"key-empty", func(m *model.PushPullMessage, e *c16Env) { pack(m).Key = "" }},
		{"key-other", func(m *model.PushPullMessage, e *c16Env) { pack(m).Key = "k2" }},
		{"cp-zero", func(m *model.PushPullMessage, e *c16Env) { pack(m).CheckPoint = &model.CheckPoint{} }},
		{"cp-ahead", func(m *model.PushPullMessage, e *c16Env) {
			if cp := pack(m).CheckPoint; cp != nil {
				cp.Sseq += 5
				cp.Cseq += 5
			}
		}},
		{"cp-sseq-ahead", func(m *model.PushPullMessage, e *c16Env) {
			if cp := pack(m).CheckPoint; cp != nil {
				cp.Sseq += 7
			}
		}},
		{"cp-swapped", func(m *model.PushPullMessage, e *c16Env) {
			if cp := pack(m).CheckPoint; cp != nil {
				cp.Sseq, cp.Cseq = cp.Cseq, cp.Sseq
			}
		}},
		{"cp-nil", func(m *model.PushPullMessage, e *c16Env) { pack(m).CheckPoint = nil }},
		{"ops-gap", func(m *model.PushPullMessage, e *c16Env) {
			for _, op := range pack(m).Operations {
				if op.ID != nil {
					op.ID.Seq += 2
				}
			}
		}},
		{"ops-repeat", func(m *model.PushPullMessage, e *c16Env) {
			ops := pack(m).Operations
			if len(ops) > 0 {
				pack(m).Operations = append(ops, cloneOp(ops[len(ops)-1]))
			}
		}},
		{"ops-reordered", func(m *model.PushPullMessage, e *c16Env) {
			ops := pack(m).Operations
			if len(ops) > 1 {
				ops[0], ops[1] = ops[1], ops[0]
			}
		}},
		{"ops-foreign-cuid", func(m *model.PushPullMessage, e *c16Env) {
			for _, op := range pack(m).Operations {
				if op.ID != nil {
					op.ID.CUID = e.c1cuid
				}
			}
		}},
		{"ops-old-seq", func(m *model.PushPullMessage, e *c16Env) {
			for _, op := range pack(m).Operations {
				if op.ID != nil {
					op.ID.Seq = 1
				}
			}
		}},
		{"ops-nil-id", func(m *model.PushPullMessage, e *c16Env) {
			if len(pack(m).Operations) > 0 {
				pack(m).Operations[0].ID = nil
			}
		}},
		{"ops-none", func(m *model.PushPullMessage, e *c16Env) { pack(m).Operations = nil }},
		{"type-changed", func(m *model.PushPullMessage, e *c16Env) { pack(m).Type = model.TypeOfDatatype_MAP }},
		{"era-changed", func(m *model.PushPullMessage, e *c16Env) { pack(m).Era = 3 }},
		{"no-packs", func(m *model.PushPullMessage, e *c16Env) { m.PushPullPacks = nil }},
		{"two-packs-same-key", func(m *model.PushPullMessage, e *c16Env) {
			b, _ := proto.Marshal(pack(m))
			var p2 model.PushPullPack
			proto.Unmarshal(b, &p2)
			m.PushPullPacks = append(m.PushPullPacks, &p2)
		}},
		{"header-nil", func(m *model.PushPullMessage, e *c16Env) { m.Header = nil }},
	}
	// a complete, well-formed entry request (as the SDK builds it for a new datatype) for a key nobody uses, except that it
	// carries the id of a stored datatype of another key: create / subscribe / subscribe-or-create
	for _, mode := range []struct {
		name string
		bits uint32
	}{{"create", 0x01}, {"subscribe", 0x02}, {"soc", 0x03}} {
		mode := mode
		ms = append(ms, mutation{"fresh-key-used-id-" + mode.name, func(m *model.PushPullMessage, e *c16Env) {
			r := newReplica(9, typeOf(e.typ), mode.bits&1 != 0, 0)
			p := r.dt.CreatePushPullPack()
			p.Key, p.DUID, p.Option = "nokey", e.foreign, mode.bits
			for _, op := range p.Operations {
				if op.ID != nil {
					op.ID.CUID = m.Cuid
				}
			}
			m.PushPullPacks = []*model.PushPullPack{p}
		}})
	}
	for bits := uint32(1); bits <= 0x7f; bits++ {
		b := bits
		ms = append(ms, mutation{fmt.Sprintf("option-%02x", b), func(m *model.PushPullMessage, e *c16Env) { pack(m).Option = b }})
	}
	return ms
}

type c16Result struct {
	Name    string        `json:"name"`
	Outcome string        `json:"outcome"`
	Viol    *pt.Violation `json:"viol,omitempty"`
}

// c16Case builds the base scenario, sends the mutated request and checks the oracle.
func c16Case(t *testing.T, p c16Params, names []string) (res c16Result) {
	res.Name = fmt.Sprint(names)
	all := map[string]mutation{}
	for _, mu := range c16Mutations() {
		all[mu.name] = mu
	}
	synctest.Test(t, func(t *testing.T) {
		pp, _ := json.Marshal(E2Params{Clients: 2, Type: p.Type, Keys: []string{"k1", "k2"}, Prefix: "joined", Colls: []string{"col"}})
		m := newE2(pp)
		defer m.Shutdown()
		if m.fatal != nil {
			res.Viol = m.fatal
			return
		}
		m.sys.MakeCollection("col2")
		c0, c1 := m.cls[0], m.cls[1]
		// base: both clients hold k1 and k2; c0 has two unpushed operations on k1
		w := &World{P: WParams{Type: p.Type}, typ: typeOf(p.Type), reps: []*Replica{c0.dts["k1"].rep}}
		calls := localCalls(w, 0, "")
		w.Local(calls[0])
		w.reps[0] = c0.dts["k1"].rep
		w.Local(localCalls(w, 0, "")[0])
		env := &c16Env{m: m, typ: p.Type, foreign: c0.dts["k2"].rep.dt.GetDUID(), c1cuid: c1.cuid}
		req := model.NewPushPullMessage(0, &model.Client{CUID: c0.cuid, Collection: c0.coll}, c0.dts["k1"].rep.dt.CreatePushPullPack())
		b, _ := proto.Marshal(req)
		var mut model.PushPullMessage
		proto.Unmarshal(b, &mut)
		for _, n := range names {
			if len(mut.PushPullPacks) == 0 && n != "none" && n != "no-packs" && n[:2] != "cu" && n[:2] != "co" && n != "header-nil" {
				continue
			}
			all[n].f(&mut, env)
		}
		time.Sleep(time.Millisecond)
		before := m.sys.DB.Dump()
		storeBefore := m.readStore()
		var resp *model.PushPullMessage
		var err error
		t0 := time.Now()
		if !callWithDeadline(func() {
			ctx, cancel := gocontext.WithCancel(gocontext.Background())
			defer cancel()
			bb, _ := proto.Marshal(&mut)
			var in model.PushPullMessage
			proto.Unmarshal(bb, &in)
			resp, err = m.sys.Svc().ProcessPushPull(ctx, &in)
		}) {
			exitWith(viol("C16:request-never-answered:mutation:"+res.Name, "mutated request %v was never answered: %s", names, mut.ToString(false)))
		}
		took := time.Since(t0) // virtual time: nothing else runs, so only timers of the request itself can pass it
		m.drain()
		after := m.sys.DB.Dump()
		if took >= 3*time.Second {
			// the only multi-second timer on the request path is the lock lease: the request waited for a
			// lock that nobody but itself can have held
			res.Viol = viol("C16:answered-only-after-a-lock-lease:"+res.Name, "the lone request %v was answered after %v of virtual time (lock lease is 5s): %s", names, took, mut.ToString(false))
			return
		}
		refused := err != nil
		hasErrPack := false
		if resp != nil {
			for _, pk := range resp.PushPullPacks {
				if pk.GetPushPullPackOption().HasErrorBit() {
					hasErrPack = true
				}
			}
			if len(resp.PushPullPacks) != len(mut.PushPullPacks) {
				res.Viol = viol("C16:missing-response-pack:"+res.Name, "request %v carried %d packs, response %d", names, len(mut.PushPullPacks), len(resp.PushPullPacks))
				return
			}
		}
		res.Outcome = fmt.Sprintf("rpcerr=%v errpack=%v changed=%v", err != nil, hasErrPack, before != after)
		allRefused := refused
		if resp != nil && len(resp.PushPullPacks) > 0 {
			allRefused = true
			for _, pk := range resp.PushPullPacks {
				if !pk.GetPushPullPackOption().HasErrorBit() {
					allRefused = false
				}
			}
		}
		if allRefused && before != after {
			res.Viol = viol("C16:refused-request-changed-store:"+res.Name, "request %v was refused (%s) but stored data changed; first difference at %s", names, res.Outcome, firstDiff(after, before))
			return
		}
		if v := m.checkLog(); v != nil {
			v.Sig = v.Sig + ":after-mutation:" + res.Name
			res.Viol = v
			return
		}
		// Did the server store, as a well-formed push, an operation that no client ever issued (a forged sequence number, a
		// forged author, an operation under another datatype)? Then the request was an ordinary push of a client that does
		// not exist in this harness: the log invariants above still bind, but the real clients - whose own state does not
		// contain these operations - are no longer "the correct clients that continue": nothing more is judged.
		issued := map[string]string{} // datatype id | author | seq -> body
		for _, op := range req.PushPullPacks[0].Operations {
			issued[fmt.Sprintf("%s|%s|%d", req.PushPullPacks[0].DUID, op.ID.CUID, op.ID.Seq)] = string(op.Body)
		}
		forged := ""
		for duid, dt := range m.readStore() {
			old := 0
			if o := storeBefore[duid]; o != nil {
				old = len(o.ops)
			}
			for i, op := range dt.ops {
				if i < old {
					continue
				}
				if b, ok := issued[fmt.Sprintf("%s|%s|%d", duid, op.cuid, op.seq)]; !ok || b != op.body {
					forged = fmt.Sprintf("%s #%d of %s at log position %d of %s", op.typ, op.seq, op.cuid, op.sseq, dt.key)
				}
			}
		}
		if forged != "" {
			res.Outcome += " stored-a-forged-operation"
			return
		}
		// an SDK client that receives the response: error handler, no panic, still usable
		if resp != nil && len(resp.PushPullPacks) > 0 && mut.Cuid == c0.cuid {
			pk := resp.PushPullPacks[0]
			// a non-error response is handed to the SDK client only if it is one the client can receive in
			// its state: a subscribed datatype never asks to create or subscribe, so a creation/subscription
			// answer (obtained by forging the option bits or the id) is not something it has to digest
			ropt := pk.GetPushPullPackOption()
			expected := hasErrPack || !(ropt.HasCreateBit() || ropt.HasSubscribeBit())
			if d, ok := c0.dts[pk.Key]; ok && expected && (hasErrPack || pk.DUID == d.rep.dt.GetDUID()) {
				_, errsBefore, _ := c0.h.Events(pk.Key)
				var perr interface{}
				func() {
					defer func() { perr = recover() }()
					d.rep.dt.ApplyPushPullPack(pk)
				}()
				m.drain()
				if perr != nil {
					res.Viol = viol("C16:client-panics-on-response:"+errClass(pk), "the client panicked applying the response to %v: %v", names, perr)
					return
				}
				_, errsAfter, _ := c0.h.Events(pk.Key)
				if pk.GetPushPullPackOption().HasErrorBit() && len(errsAfter) <= len(errsBefore) {
					res.Viol = viol("C16:error-response-not-reported:"+errClass(pk), "the client got an error response to %v but its error handler was not called", names)
					return
				}
			}
		}
		// the key stays usable: correct clients continue and converge
		m.oracles["converge"] = true
		w1 := &World{P: WParams{Type: p.Type}, typ: typeOf(p.Type), reps: []*Replica{c1.dts["k1"].rep}}
		w1.Local(localCalls(w1, 0, "")[0])
		w0 := &World{P: WParams{Type: p.Type}, typ: typeOf(p.Type), reps: []*Replica{c0.dts["k1"].rep}}
		w0.Local(localCalls(w0, 0, "")[0])
		if v := safeClose(m); v != nil {
			v.Sig = v.Sig + ":after-mutation:" + res.Name
			res.Viol = v
			return
		}
		if v := m.checkLog(); v != nil {
			v.Sig = v.Sig + ":after-mutation:" + res.Name
			res.Viol = v
		}
	})
	return
}

func errClass(pk *model.PushPullPack) string {
	if !pk.GetPushPullPackOption().HasErrorBit() || len(pk.Operations) == 0 {
		return "no-error"
	}
	var body struct{ Code uint32 }
	json.Unmarshal(pk.Operations[0].Body, &body)
	return fmt.Sprintf("code-%d", body.Code)
}

func init() {
	run := func(job *pt.Job, emit func(pt.Line, bool), only [][]string) {
		var p c16Params
		json.Unmarshal(job.Params, &p)
		info := pt.ShardInfo{Exhaustive: true}
		_ = info
		muts := c16Mutations()
		var cases [][]string
		if only != nil {
			cases = only
		} else {
			for _, mu := range muts {
				cases = append(cases, []string{mu.name})
			}
			if p.Pairs != "" {
				base := []string{"cuid-other-client", "duid-unknown", "duid-foreign", "key-other", "cp-zero", "cp-ahead", "ops-gap", "ops-repeat", "ops-foreign-cuid", "ops-none", "type-changed"}
				if p.Pairs == "all" {
					base = nil
					for _, mu := range muts {
						if mu.name != "none" {
							base = append(base, mu.name)
						}
					}
				}
				for _, a := range base {
					for _, mu := range muts {
						if (a == "duid-foreign" && mu.name == "key-other") || (a == "key-other" && mu.name == "duid-foreign") {
							// together they form a valid request for the OTHER datatype carrying operations its
							// honest replica never issued: nothing to refuse, and no convergence owed
							continue
						}
						if mu.name != a && mu.name != "none" {
							cases = append(cases, []string{a, mu.name})
						}
					}
				}
			}
		}
		var ex struct {
			Skip []int `json:"skip"`
		}
		json.Unmarshal(job.Extra, &ex)
		skip := map[int]bool{}
		for _, k := range ex.Skip {
			skip[k] = true
		}
		for i, c := range cases {
			if (job.Shards > 0 && i%job.Shards != job.Shard) || skip[i] {
				continue
			}
			ii := i
			eb, _ := json.Marshal(map[string]interface{}{"mutations": c})
			emit(pt.Line{Start: &ii, I: i, Info: eb}, true)
			curCase = i
			r := c16Case(curT, p, c)
			co := pt.CaseOut{Name: r.Name, Outcome: r.Outcome, Transitions: 1, Viol: r.Viol, Extra: eb}
			b, _ := json.Marshal(co)
			emit(pt.Line{I: i, Done: true, Info: b}, false)
		}
		info.Exhaustive = true
		b, _ := json.Marshal(info)
		emit(pt.Line{I: -1, Done: true, Info: b}, true)
	}
	jobKinds["mutreq"] = func(job *pt.Job, emit func(pt.Line, bool)) { run(job, emit, nil) }
	jobKinds["mutreq-replay"] = func(job *pt.Job, emit func(pt.Line, bool)) {
		var ex struct {
			Mutations []string `json:"mutations"`
		}
		json.Unmarshal(job.Extra, &ex)
		var p c16Params
		json.Unmarshal(job.Params, &p)
		r := c16Case(curT, p, ex.Mutations)
		b, _ := json.Marshal(ReplayInfo{Steps: []string{r.Name + " -> " + r.Outcome}, Viol: r.Viol})
		emit(pt.Line{Done: true, Info: b}, true)
	}
}
