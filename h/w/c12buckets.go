package w

import (
	gocontext "context"
	"encoding/json"
	"fmt"
	"strings"
	"sync"
	"testing"
	"testing/synctest"
	"time"

	"github.com/orda-io/orda/client/pkg/model"
	"google.golang.org/protobuf/proto"

	"verif/h/pt"
)

// C12, "requests for different datatypes neither block nor affect each other", against any scheme that maps the
// names of the per-key locks onto fewer buckets than there are keys here: one request is held in the middle of its
// critical section (parked at a database command of its handler, never released), then requests for otherKeys other
// keys of the same collection are made one after the other, each run to completion with everything it starts. None of
// them may have to wait: if at some point nothing that belongs to the request can run although it has not returned,
// it waits for a lock that only the held request can own.
const otherKeys = 70

type bucketCase struct {
	name string
	held string // what is held: "pushpull" | "patch"
	then string // what the other keys do: "pushpull" | "patch"
}

var bucketCases = []bucketCase{
	{"held-pushpull-then-70-pushpulls", "pushpull", "pushpull"},
	{"held-patch-then-70-patches", "patch", "patch"},
	{"held-pushpull-then-70-patches", "pushpull", "patch"},
}

type bucketResult struct {
	Name    string        `json:"name"`
	Outcome string        `json:"outcome"`
	Viol    *pt.Violation `json:"viol,omitempty"`
}

func c12BucketCase(t *testing.T, name string) (res bucketResult) {
	res.Name = name
	var bc *bucketCase
	for i := range bucketCases {
		if bucketCases[i].name == name {
			bc = &bucketCases[i]
		}
	}
	if bc == nil {
		res.Viol = viol("E2:harness:unknown-case", "unknown case %s", name)
		return
	}
	defer func() {
		if r := recover(); r != nil {
			if res.Viol != nil && strings.Contains(fmt.Sprint(r), "blocked goroutines remain") {
				return
			}
			panic(r)
		}
	}()
	synctest.Test(t, func(t *testing.T) {
		keys := []string{"held"}
		for i := 0; i < otherKeys; i++ {
			keys = append(keys, fmt.Sprintf("k%02d", i))
		}
		typ := "counter"
		if bc.held == "patch" || bc.then == "patch" {
			typ = "doc"
		}
		pp, _ := json.Marshal(E2Params{Clients: 2, Type: typ, Keys: keys, Colls: []string{"col"}, Exchange: "pack", Tolerant: true})
		m := newE2(pp)
		defer m.Shutdown()
		if m.fatal != nil {
			res.Viol = m.fatal
			return
		}
		c0, c1 := m.cls[0], m.cls[1]
		// client 0 creates "held" and has one operation to push; client 1 opens every other key (nothing sent yet)
		if v := m.Apply(pt.Action{Op: "open", R: 0, T: "held", K: "soc"}); v != nil {
			res.Viol = v
			return
		}
		if v := m.Apply(pt.Action{Op: "xchg", R: 0, T: "held", K: "ok"}); v != nil {
			res.Viol = v
			return
		}
		w0 := &World{P: WParams{Type: typ}, typ: typeOf(typ), reps: []*Replica{c0.dts["held"].rep}}
		w0.Local(localCalls(w0, 0, "")[0])
		if bc.then == "pushpull" {
			for _, k := range keys[1:] {
				if v := m.Apply(pt.Action{Op: "open", R: 1, T: k, K: "soc"}); v != nil {
					res.Viol = v
					return
				}
			}
		}
		sched := m.sys.Sched
		sched.Exempt()
		sched.On = true
		var mu sync.Mutex
		done := map[string]bool{}
		errs := map[string]string{}
		start := func(name string, f func() error) {
			go func() {
				sched.Register(name)
				sched.Gate("start:" + name)
				err := f()
				mu.Lock()
				done[name] = true
				if err != nil {
					errs[name] = err.Error()
				}
				mu.Unlock()
			}()
		}
		isDone := func(name string) bool { mu.Lock(); defer mu.Unlock(); return done[name] }
		fam := func(act, name string) bool { return act == name || strings.HasPrefix(act, name+"/") }
		pushpull := func(c *e2client, key string) func() error {
			return func() error {
				d := c.dts[key]
				pack := d.rep.dt.CreatePushPullPack()
				req := model.NewPushPullMessage(0, &model.Client{CUID: c.cuid, Collection: c.coll}, pack)
				ctx, cancel := gocontext.WithCancel(gocontext.Background())
				defer cancel()
				b, _ := proto.Marshal(req)
				var in model.PushPullMessage
				proto.Unmarshal(b, &in)
				out, err := m.sys.Svc().ProcessPushPull(ctx, &in)
				if err != nil {
					return err
				}
				for _, pk := range out.PushPullPacks {
					if pk.GetPushPullPackOption().HasErrorBit() {
						return fmt.Errorf("error pack: %s", pk.ToString(false))
					}
					d.rep.dt.ApplyPushPullPack(pk)
				}
				return nil
			}
		}
		patch := func(key, target string) func() error {
			return func() error {
				_, err := m.sys.Svc().PatchDocument(gocontext.Background(), &model.PatchMessage{Collection: c0.coll, Key: key, Json: target})
				return err
			}
		}
		// the held request: run it until one of the goroutines it started is parked at a database command (the handler
		// has taken the key's lock before its first command; PatchDocument has taken its own lock before it rebuilds)
		if bc.held == "pushpull" {
			start("A", pushpull(c0, "held"))
		} else {
			start("A", patch("held", `{"a":{"x":1},"b":[1,2]}`))
		}
		heldAt := ""
		for step := 0; step < 200 && heldAt == ""; step++ {
			synctest.Wait()
			var next string
			for _, p := range sched.Menu() {
				if !fam(p.Activity, "A") {
					continue
				}
				inside := strings.HasPrefix(p.Label, "db.") && (p.Activity != "A" || bc.held == "patch")
				if bc.held == "patch" && !strings.Contains(p.Label, "nsert") && !strings.Contains(p.Label, "pdate") {
					inside = false // hold the patch where it pushes its operations (both of its locks taken)
				}
				if inside {
					heldAt = p.Activity + " @ " + p.Label
					break
				}
				if next == "" {
					next = p.Activity
				}
			}
			if heldAt != "" {
				break
			}
			if next == "" {
				if isDone("A") {
					res.Viol = viol("E2:harness:held-request-finished", "the request to be held finished before reaching a database command of its critical section")
					return
				}
				time.Sleep(10 * time.Millisecond)
				continue
			}
			sched.Release(next)
		}
		if heldAt == "" {
			res.Viol = viol("E2:harness:held-request-not-parked", "the request to be held never parked inside its critical section")
			return
		}
		waited := []string{}
		for i, k := range keys[1:] {
			name := fmt.Sprintf("B%02d", i)
			if bc.then == "pushpull" {
				start(name, pushpull(c1, k))
			} else {
				start(name, patch(k, fmt.Sprintf(`{"n":%d,"l":[1,2]}`, i)))
			}
			idle := 0
			for steps := 0; ; steps++ {
				synctest.Wait()
				var next string
				for _, p := range sched.Menu() {
					if fam(p.Activity, name) {
						next = p.Activity
						break
					}
				}
				if next != "" {
					sched.Release(next)
					idle = 0
					continue
				}
				if isDone(name) {
					break
				}
				// the request has not returned and nothing of it can run: it waits for a lock or a timer
				if idle == 0 {
					waited = append(waited, k)
				}
				idle++
				if idle > 4 || steps > 5000 {
					res.Viol = viol("C12:request-for-another-key-never-returns", "while a %s of key \"held\" is in its critical section (%s), the %s of key %q does not return", bc.held, heldAt, bc.then, k)
					return
				}
				time.Sleep(5100 * time.Millisecond)
			}
			mu.Lock()
			e := errs[name]
			mu.Unlock()
			if e != "" || len(waited) > 0 {
				res.Viol = viol("C12:request-waits-for-another-key", "while a %s of key \"held\" is in its critical section (%s), the %s of key %q had to wait (result: %q): requests for different datatypes block each other", bc.held, heldAt, bc.then, k, e)
				return
			}
		}
		// let the held request finish
		sched.ReleaseAll()
		synctest.Wait()
		for i := 0; i < 5 && !isDone("A"); i++ {
			time.Sleep(5100 * time.Millisecond)
			synctest.Wait()
		}
		mu.Lock()
		ea, da := errs["A"], done["A"]
		mu.Unlock()
		if !da {
			res.Viol = viol("C12:held-request-never-returns", "the held %s of key \"held\" did not return after it was released", bc.held)
			return
		}
		if ea != "" {
			res.Viol = viol("C12:held-request-failed", "the held %s of key \"held\" failed after %d other keys were served: %s", bc.held, otherKeys, ea)
			return
		}
		if v := m.checkLog(); v != nil {
			res.Viol = v
			return
		}
		res.Outcome = fmt.Sprintf("held at %s; %d other keys served without waiting", heldAt, otherKeys)
	})
	return
}

func init() {
	jobKinds["lockbuckets"] = func(job *pt.Job, emit func(pt.Line, bool)) {
		var ex struct {
			Skip []int `json:"skip"`
		}
		json.Unmarshal(job.Extra, &ex)
		skip := map[int]bool{}
		for _, k := range ex.Skip {
			skip[k] = true
		}
		for i, c := range bucketCases {
			if (job.Shards > 0 && i%job.Shards != job.Shard) || skip[i] {
				continue
			}
			ii := i
			eb, _ := json.Marshal(map[string]interface{}{"bucket_case": c.name})
			emit(pt.Line{Start: &ii, I: i, Info: eb}, true)
			curCase = i
			r := c12BucketCase(curT, c.name)
			co := pt.CaseOut{Name: r.Name, Outcome: r.Outcome, Transitions: otherKeys + 1, Viol: r.Viol, Extra: eb}
			b, _ := json.Marshal(co)
			emit(pt.Line{I: i, Done: true, Info: b}, false)
		}
		b, _ := json.Marshal(pt.ShardInfo{Exhaustive: true})
		emit(pt.Line{I: -1, Done: true, Info: b}, true)
	}
	jobKinds["lockbuckets-replay"] = func(job *pt.Job, emit func(pt.Line, bool)) {
		var ex struct {
			Case string `json:"bucket_case"`
		}
		json.Unmarshal(job.Extra, &ex)
		r := c12BucketCase(curT, ex.Case)
		b, _ := json.Marshal(ReplayInfo{Steps: []string{r.Name + " -> " + r.Outcome}, Viol: r.Viol})
		emit(pt.Line{Done: true, Info: b}, true)
	}
}
