package w

import (
	"encoding/json"
	"fmt"
	"runtime/debug"
	"strings"

	"verif/h/pt"
)

// Machine is one explicit-state system under exploration: real orda objects plus harness
// bookkeeping. A fresh Machine is built for every execution; states are reached by replay.
type Machine interface {
	Enabled() []pt.Action
	Apply(a pt.Action) *pt.Violation // execute on the real code + step oracle
	Key() (string, bool)             // canonical state key, non-trivial flag
	Close() *pt.Violation            // quiescence-closure oracle; may consume the machine
	Outcome() string                 // short digest of the observable outcome (vacuity guard)
}

// Factory builds a Machine in its initial state.
type Factory func(params json.RawMessage) Machine

var registry = map[string]Factory{}

func viol(sig, format string, args ...interface{}) *pt.Violation {
	return &pt.Violation{Sig: sig, Msg: fmt.Sprintf(format, args...)}
}

func safeApply(m Machine, a pt.Action) (v *pt.Violation) {
	defer func() {
		if p := recover(); p != nil {
			v = viol("panic:harness-step:"+firstLine(fmt.Sprint(p)), "panic in step %s: %v\n%s", a, p, trimStack(debug.Stack()))
		}
	}()
	return m.Apply(a)
}

func safeClose(m Machine) (v *pt.Violation) {
	defer func() {
		if p := recover(); p != nil {
			v = viol("panic:closure:"+firstLine(fmt.Sprint(p)), "panic in closure: %v\n%s", p, trimStack(debug.Stack()))
		}
	}()
	return m.Close()
}

func firstLine(s string) string {
	if i := strings.IndexByte(s, '\n'); i >= 0 {
		s = s[:i]
	}
	if len(s) > 120 {
		s = s[:120]
	}
	return s
}

func trimStack(b []byte) string {
	s := string(b)
	if len(s) > 3000 {
		s = s[:3000]
	}
	return s
}

// replay brings a fresh machine to the state after history h.
func replay(f Factory, params json.RawMessage, h []pt.Action) (Machine, *pt.Violation) {
	m := f(params)
	for _, a := range h {
		if v := safeApply(m, a); v != nil {
			return m, v
		}
	}
	return m, nil
}

// expandItem computes all successors of the state reached by h.
func expandItem(f Factory, params json.RawMessage, h []pt.Action, wantKey string) ([]pt.Succ, error) {
	base, v := replay(f, params, h)
	if v != nil {
		return nil, fmt.Errorf("replay of an accepted history violated: %s: %s", v.Sig, v.Msg)
	}
	if wantKey != "" {
		if k, _ := base.Key(); k != wantKey {
			return nil, fmt.Errorf("nondeterminism: replay of %v gave key %s, expected %s", h, k, wantKey)
		}
	}
	acts := base.Enabled()
	out := make([]pt.Succ, 0, len(acts))
	for _, a := range acts {
		m, v := replay(f, params, h)
		if v != nil {
			return nil, fmt.Errorf("replay diverged: %s", v.Msg)
		}
		s := pt.Succ{A: a, Evals: 1}
		s.Viol = safeApply(m, a)
		if s.Viol == nil {
			s.Key, s.Nontrivial = m.Key()
			s.Outcome = m.Outcome()
			s.Viol = safeClose(m)
		}
		if s.Viol != nil {
			s.Terminal = true
			if s.Key == "" {
				s.Key = "viol:" + s.Viol.Sig
			}
		}
		out = append(out, s)
	}
	return out, nil
}
