package w

import (
	"encoding/json"
	"fmt"
	"runtime/debug"
	"strings"
	"testing"
	"testing/synctest"
	"time"

	"verif/h/pt"
)

// Machine is one explicit-state system under exploration: real orda objects plus harness
// bookkeeping. A fresh Machine is built for every execution; states are reached by replay.
type Machine interface {
	Enabled() []pt.Action
	Apply(a pt.Action) *pt.Violation // execute on the real code + step oracle
	Key() (string, bool)             // canonical state key, non-trivial flag
	Close() *pt.Violation            // quiescence-closure oracle; may consume the machine
	Outcome() string                 // short digest of the observable outcome (vacuity guard)
}

// Factory builds a Machine in its initial state.
type Factory func(params json.RawMessage) Machine

var registry = map[string]Factory{}

// bubbleChecks lists the registry entries whose machines must live inside a testing/synctest
// bubble (whole-system checks); every execution (replay + one step + closure) gets its own bubble.
var bubbleChecks = map[string]bool{}

// curT is the *testing.T of the worker entry point (needed to open bubbles).
var curT *testing.T

// inEnv runs f directly, or inside a fresh bubble for whole-system machines.
func inEnv(check string, f func()) {
	if !bubbleChecks[check] {
		f()
		return
	}
	synctest.Test(curT, func(t *testing.T) { f() })
}

// exitWith reports a violation that leaves goroutines blocked for ever (a request that never
// returns): the bubble can no longer be closed, so the worker journals the violation and exits;
// the driver records it for the history and successor in flight and re-runs the rest.
var exitWith func(v *pt.Violation)

// callWithDeadline runs f in a goroutine of its own and waits for it under the bubble's virtual
// clock: if f has not returned after 60 virtual seconds with every goroutine durably blocked, it
// never will. Returns false on a hang.
func callWithDeadline(f func()) bool {
	done := make(chan struct{})
	go func() {
		defer close(done)
		f()
	}()
	select {
	case <-done:
		return true
	case <-time.After(60 * time.Second):
		return false
	}
}

// shutdowner is implemented by machines that own goroutines.
type shutdowner interface{ Shutdown() }

func shutdown(m Machine) {
	if s, ok := m.(shutdowner); ok {
		s.Shutdown()
	}
}

func viol(sig, format string, args ...interface{}) *pt.Violation {
	return &pt.Violation{Sig: sig, Msg: fmt.Sprintf(format, args...)}
}

func safeApply(m Machine, a pt.Action) (v *pt.Violation) {
	defer func() {
		if p := recover(); p != nil {
			v = viol("panic:harness-step:"+firstLine(fmt.Sprint(p)), "panic in step %s: %v\n%s", a, p, trimStack(debug.Stack()))
		}
	}()
	return m.Apply(a)
}

func safeClose(m Machine) (v *pt.Violation) {
	defer func() {
		if p := recover(); p != nil {
			v = viol("panic:closure:"+firstLine(fmt.Sprint(p)), "panic in closure: %v\n%s", p, trimStack(debug.Stack()))
		}
	}()
	return m.Close()
}

func firstLine(s string) string {
	if i := strings.IndexByte(s, '\n'); i >= 0 {
		s = s[:i]
	}
	if len(s) > 120 {
		s = s[:120]
	}
	return s
}

func trimStack(b []byte) string {
	s := string(b)
	if len(s) > 3000 {
		s = s[:3000]
	}
	return s
}

// replay brings a fresh machine to the state after history h.
func replay(f Factory, params json.RawMessage, h []pt.Action) (Machine, *pt.Violation) {
	m := f(params)
	for _, a := range h {
		if v := safeApply(m, a); v != nil {
			return m, v
		}
	}
	return m, nil
}

// isolatedExec, when set, executes history h followed by action a in a fresh worker process and returns the
// transition (see expandItem).
var isolatedExec func(check string, params json.RawMessage, h []pt.Action, a pt.Action) (*pt.Succ, error)

// execOne is what such a process does: exactly one execution.
func execOne(check string, f Factory, params json.RawMessage, h []pt.Action, a pt.Action) pt.Succ {
	s := pt.Succ{A: a, Evals: 1}
	inEnv(check, func() {
		m, v := replay(f, params, h)
		defer shutdown(m)
		if v != nil {
			s.Viol = v
			return
		}
		s.Viol = safeApply(m, a)
		if s.Viol == nil {
			s.Key, s.Nontrivial = m.Key()
			s.Outcome = m.Outcome()
			s.Viol = safeClose(m)
		}
	})
	if s.Viol != nil {
		s.Terminal = true
		if s.Key == "" {
			s.Key = "viol:" + s.Viol.Sig
		}
	}
	return s
}

// expandItem computes all successors of the state reached by h. journal(k) is called before the
// k-th successor is executed (a dead worker then names the action in flight); skip lists successor
// indices known to kill the worker.
func expandItem(check string, f Factory, params json.RawMessage, h []pt.Action, wantKey string, journal func(k int, a pt.Action), skip map[int]bool) ([]pt.Succ, error) {
	var acts []pt.Action
	var err error
	isolated := false
	inEnv(check, func() {
		base, v := replay(f, params, h)
		defer shutdown(base)
		if v != nil {
			err = fmt.Errorf("replay of an accepted history violated: %s: %s", v.Sig, v.Msg)
			return
		}
		if wantKey != "" {
			if k, _ := base.Key(); k != wantKey {
				if isolatedExec != nil {
					// the same history gave another state than when it was first reached: something outlives an execution
					// inside this process (state at package level in the code under test). From here on every successor of
					// this item is executed in a process of its own, which is what a server process is.
					isolated = true
					acts = base.Enabled()
					return
				}
				err = fmt.Errorf("nondeterminism: replay of %v gave key %s, expected %s", h, k, wantKey)
				return
			}
		}
		acts = base.Enabled()
	})
	if err != nil {
		return nil, err
	}
	if isolated {
		out := make([]pt.Succ, 0, len(acts))
		for k, a := range acts {
			if skip[k] {
				continue
			}
			if journal != nil {
				journal(k, a)
			}
			s, e := isolatedExec(check, params, h, a)
			if e != nil {
				return nil, fmt.Errorf("nondeterminism: replay of %v differs from its first execution, and a process of its own failed: %v", h, e)
			}
			out = append(out, *s)
		}
		return out, nil
	}
	out := make([]pt.Succ, 0, len(acts))
	for k, a := range acts {
		if skip[k] {
			continue
		}
		if journal != nil {
			journal(k, a)
		}
		s := pt.Succ{A: a, Evals: 1}
		inEnv(check, func() {
			m, v := replay(f, params, h)
			defer shutdown(m)
			if v != nil {
				err = fmt.Errorf("replay diverged: %s", v.Msg)
				return
			}
			s.Viol = safeApply(m, a)
			if s.Viol == nil {
				s.Key, s.Nontrivial = m.Key()
				s.Outcome = m.Outcome()
				s.Viol = safeClose(m)
			}
		})
		if err != nil {
			return nil, err
		}
		if s.Viol != nil {
			s.Terminal = true
			if s.Key == "" {
				s.Key = "viol:" + s.Viol.Sig
			}
		}
		out = append(out, s)
	}
	return out, nil
}
