package w

import (
	"encoding/json"
	"fmt"
	"github.com/orda-io/orda/client/pkg/errors"
	"sort"
	"strconv"
	"strings"

	"github.com/orda-io/orda/client/pkg/model"
	"github.com/orda-io/orda/client/pkg/operations"
	"github.com/orda-io/orda/client/pkg/verifrt"

	"verif/h/pt"
)

// e1Machine: N replicas + harness-played log; oracles selected by name.
type e1Machine struct {
	w       *World
	oracles map[string]bool
	last    string
	// C04 bookkeeping: per replica, the internal order (ids) seen after the previous step
	prevOrder []map[string][]string
	// twin bookkeeping (C09/C10): the history so far, with the tags consumed by steps the twin omits
	hist     []twinStep
	params   E1Params
	restores int
	isTwin   bool
	// fresh instances made ready before the history starts, for the restore steps: an application that restores
	// several replicas creates its instances first and imports afterwards, so nothing lies between two imports
	spares [][]*Replica
	// shadows: at every restore a second fresh instance imports the same export right after the first and is then left
	// alone; whatever the history does to the first, the second must keep showing what it imported
	shadows []shadow
}

type shadow struct {
	rep        *Replica
	of         int
	view, snap string
}

type twinStep struct {
	a    pt.Action
	skip bool // omitted in the twin world (failed transaction, restore, refused bad unit)
	tags int  // tags the step consumed on replica a.R
}

// E1Params extends WParams with the oracle selection.
type E1Params struct {
	WParams
	Oracles  []string `json:"oracles"`
	MaxSkips int      `json:"max_skips"` // failed transactions / restores / refused units per history (default 1)
}

func newE1(params json.RawMessage) *e1Machine {
	var p E1Params
	json.Unmarshal(params, &p)
	if p.N == 0 {
		p.N = 2
	}
	m := &e1Machine{w: NewWorld(p.WParams), oracles: map[string]bool{}, params: p}
	for _, o := range p.Oracles {
		m.oracles[o] = true
	}
	m.prevOrder = make([]map[string][]string, p.N)
	if m.oracles["restore"] {
		n := p.MaxSkips
		if n == 0 {
			n = 1
		}
		m.spares = make([][]*Replica, p.N)
		for k := 0; k < 2*n; k++ { // two per restore: the restored instance and its shadow
			for i, r := range m.w.reps {
				m.spares[i] = append(m.spares[i], newReplica(50+i, m.w.typ, false, r.mode))
			}
		}
	}
	if p.Prefix != "" {
		runPrefix(m.w, p.Prefix)
	}
	if m.oracles["elements"] {
		for i := range m.w.reps {
			m.prevOrder[i] = internalOrders(m.w.reps[i])
		}
	}
	return m
}

func init() {
	registry["E1"] = func(params json.RawMessage) Machine { return newE1(params) }
}

// runPrefix brings the world into a scripted non-initial state (DESIGN §4.1 deep prefix family):
// replica 0 inserts a batch of 12, syncs, then both replicas perform cheap operations so that
// Lamport clocks reach two digits; identifier keys of the form (lamport 2, delimiter 10..11) and
// (lamport 21, delimiter 0..1) then coexist.
func runPrefix(w *World, name string) {
	syncAll := func() {
		for k := 0; k < 2; k++ {
			for i := range w.reps {
				w.Step(pt.Action{Op: "sync", R: i})
			}
		}
	}
	switch name {
	case "live": // shared live content on every replica: the start state of conflict patterns
		switch w.P.Type {
		case "map":
			w.Step(pt.Action{Op: "put", R: 0, K: "a", V: "p"})
		case "list":
			w.Step(pt.Action{Op: "ins", R: 0, P: 0, N: 2, V: "p"})
		case "doc":
			w.Step(pt.Action{Op: "dput", R: 0, K: "a", V: "a"})
		default:
			w.Step(pt.Action{Op: "inc", R: 0, P: 1})
		}
		syncAll()
	case "bulk": // replica 0 has as many unpushed operations as the push buffer is sized for (constants.OperationBufferSize = 1024), less two:
		// the next transaction's unit lies across that mark
		for i := 0; i < 1022; i++ {
			switch w.P.Type {
			case "map":
				w.Step(pt.Action{Op: "put", R: 0, K: "a", V: "p"})
			case "list":
				w.Step(pt.Action{Op: "ins1", R: 0, P: 0, V: "p"})
			case "doc":
				w.Step(pt.Action{Op: "dput", R: 0, K: "a", V: "p"})
			default:
				w.Step(pt.Action{Op: "inc", R: 0, P: 1})
			}
		}
	case "bound": // a counter five below the largest 32-bit value on every replica: the next increments wrap around
		w.Step(pt.Action{Op: "inc", R: 0, P: 2147483647})
		w.Step(pt.Action{Op: "inc", R: 0, P: -2})
		w.Step(pt.Action{Op: "inc", R: 0, P: -2})
		w.Step(pt.Action{Op: "inc", R: 0, P: -1})
		syncAll()
	case "tomb": // shared content with tombstones on every replica: a removed key, a deleted element between two live ones,
		// a deleted nested container and an array with a hole
		switch w.P.Type {
		case "map":
			w.Step(pt.Action{Op: "put", R: 0, K: "a", V: "p"})
			w.Step(pt.Action{Op: "rem", R: 0, K: "a"})
		case "list":
			w.Step(pt.Action{Op: "ins", R: 0, P: 0, N: 3, V: "p"})
			w.Step(pt.Action{Op: "del1", R: 0, P: 1})
		case "doc":
			w.Step(pt.Action{Op: "dput", R: 0, K: "a", V: "a"})
			w.Step(pt.Action{Op: "dins", R: 0, T: "a", P: 1, N: 1, V: "p"})
			w.Step(pt.Action{Op: "darrdel1", R: 0, T: "a", P: 1})
			w.Step(pt.Action{Op: "dput", R: 0, K: "b", V: "o"})
			w.Step(pt.Action{Op: "ddel", R: 0, K: "b"})
		default:
			w.Step(pt.Action{Op: "inc", R: 0, P: 1})
		}
		syncAll()
	case "reburied": // (documents) a key was written, deleted and written again with a container by replica 0, while replica 1,
		// which had seen nothing of that, put a container under the same key: everybody has pulled everything, and replica 0
		// holds two tombstones that were buried by the same winner
		w.Step(pt.Action{Op: "dput", R: 0, K: "a", V: "p"})
		w.Step(pt.Action{Op: "ddel", R: 0, K: "a"})
		w.Step(pt.Action{Op: "dput", R: 0, K: "a", V: "o"})
		w.Step(pt.Action{Op: "dput", R: 1, K: "a", V: "o"})
		w.Step(pt.Action{Op: "sync", R: 0})
		w.Step(pt.Action{Op: "sync", R: 1})
		syncAll()
	case "skew": // the last replica is three operations ahead and has pushed them; nobody has pulled yet: a later pull
		// delivers a batch of several writers in which a lower clock value follows higher ones
		l := len(w.reps) - 1
		switch w.P.Type {
		case "map":
			w.Step(pt.Action{Op: "put", R: l, K: "a", V: "p"})
			w.Step(pt.Action{Op: "put", R: l, K: "b", V: "p"})
			w.Step(pt.Action{Op: "put", R: l, K: "a", V: "p"})
		case "list":
			w.Step(pt.Action{Op: "ins1", R: l, P: 0, V: "p"})
			w.Step(pt.Action{Op: "ins1", R: l, P: 1, V: "p"})
			w.Step(pt.Action{Op: "ins1", R: l, P: 2, V: "p"})
		case "doc":
			w.Step(pt.Action{Op: "dput", R: l, K: "a", V: "a"})
			w.Step(pt.Action{Op: "dins", R: l, T: "a", P: 2, N: 1, V: "p"})
			w.Step(pt.Action{Op: "dins", R: l, T: "a", P: 3, N: 1, V: "p"})
		default:
			for k := 0; k < 3; k++ {
				w.Step(pt.Action{Op: "inc", R: l, P: 1})
			}
		}
		w.Step(pt.Action{Op: "sync", R: l})
	case "deep-list":
		w.Step(pt.Action{Op: "ins", R: 0, P: 0, N: 12, V: "p"})
		w.Step(pt.Action{Op: "sync", R: 0})
		for i := 0; i < 18; i++ {
			w.Step(pt.Action{Op: "upd", R: 0, P: 0, N: 1, V: "p"})
		}
		w.Step(pt.Action{Op: "sync", R: 0})
		for i := 1; i < len(w.reps); i++ {
			w.Step(pt.Action{Op: "sync", R: i})
		}
	case "deep-doc21", "deep-list21":
		// as deep-*, but the clock of replica 0 has already reached 10*l+1 inside the prefix (l = the clock of the batch of
		// twelve): the identifiers (l,10), (l,11) and (10l+1,0) all exist in the state every replica starts from, so that
		// an export / import happens with them present
		lam := func() uint64 { // lamport of the operation replica 0 issued last (nothing is synced inside the prefix)
			ops := w.Pending(0)
			return ops[len(ops)-1].ID.Lamport
		}
		if name == "deep-doc21" {
			w.Step(pt.Action{Op: "dput", R: 0, K: "a", V: "ea"})
			w.Step(pt.Action{Op: "dins", R: 0, T: "a", P: 0, N: 12, V: "p"})
			l := lam()
			for lam() < 10*l {
				w.Step(pt.Action{Op: "dput", R: 0, K: "b", V: "p"})
			}
			w.Step(pt.Action{Op: "dupd", R: 0, T: "a", P: 0, N: 1, V: "p"}) // the new value of slot 0 is created at (10l+1,0)
			w.Step(pt.Action{Op: "dput", R: 0, K: "c", V: "a"})
		} else {
			w.Step(pt.Action{Op: "ins", R: 0, P: 0, N: 12, V: "p"})
			l := lam()
			for lam() < 10*l {
				w.Step(pt.Action{Op: "upd", R: 0, P: 0, N: 1, V: "p"})
			}
			w.Step(pt.Action{Op: "ins1", R: 0, P: 12, V: "p"}) // created at (10l+1,0)
		}
		syncAll()
	case "deep-doc":
		w.Step(pt.Action{Op: "dput", R: 0, K: "a", V: "ea"})
		w.Step(pt.Action{Op: "dins", R: 0, T: "a", P: 0, N: 12, V: "p"})
		w.Step(pt.Action{Op: "sync", R: 0})
		for i := 0; i < 17; i++ {
			w.Step(pt.Action{Op: "dput", R: 0, K: "b", V: "p"})
		}
		w.Step(pt.Action{Op: "sync", R: 0})
		for i := 1; i < len(w.reps); i++ {
			w.Step(pt.Action{Op: "sync", R: i})
		}
	}
}

// docContainers lists object and array paths of a JSON value up to maxDepth.
func docContainers(v interface{}, maxDepth int) (objs, arrs []string, sizes map[string]int) {
	sizes = map[string]int{}
	var walk func(v interface{}, p string, d int)
	walk = func(v interface{}, p string, d int) {
		switch x := v.(type) {
		case map[string]interface{}:
			objs = append(objs, p)
			sizes[p] = len(x)
			if d >= maxDepth {
				return
			}
			keys := make([]string, 0, len(x))
			for k := range x {
				keys = append(keys, k)
			}
			sort.Strings(keys)
			for _, k := range keys {
				walk(x[k], join(p, k), d+1)
			}
		case []interface{}:
			arrs = append(arrs, p)
			sizes[p] = len(x)
			if d >= maxDepth {
				return
			}
			for i, e := range x {
				walk(e, join(p, strconv.Itoa(i)), d+1)
			}
		}
	}
	walk(v, "", 0)
	return
}

// localCalls enumerates the valid local calls of replica r for the current state.
func localCalls(w *World, ri int, alpha string) []pt.Action {
	r := w.reps[ri]
	rich := strings.Contains(alpha, "rich")
	var as []pt.Action
	add := func(a pt.Action) { a.R = ri; as = append(as, a) }
	switch {
	case r.cnt != nil:
		add(pt.Action{Op: "inc", P: 1})
		if strings.Contains(alpha, "one") {
			break
		}
		add(pt.Action{Op: "inc", P: -2})
		if rich {
			add(pt.Action{Op: "inc", P: 2147483647})
		}
		if strings.Contains(alpha, "wrap") {
			add(pt.Action{Op: "inc", P: 10})
			add(pt.Action{Op: "inc", P: -20})
		}
	case r.mp != nil:
		keys := []string{"a"}
		if rich {
			keys = []string{"a", "b"}
		}
		for _, k := range keys {
			add(pt.Action{Op: "put", K: k, V: "p"})
			if strings.Contains(alpha, "same") {
				add(pt.Action{Op: "put", K: k, V: "k"})
			}
			if strings.Contains(alpha, "alias") {
				add(pt.Action{Op: "put", K: k, V: "sm"})
				if r.mp.Get(k) != nil {
					add(pt.Action{Op: "getmut", K: k})
				}
			}
			if r.mp.Get(k) != nil {
				add(pt.Action{Op: "rem", K: k})
			}
		}
	case r.li != nil && strings.Contains(alpha, "lean"):
		// few calls, deeper histories: insert in the middle and at the end, delete the first and the last, update the middle
		n := r.li.Size()
		for _, p := range uniq(n/2, n) {
			add(pt.Action{Op: "ins1", P: p, V: "p"})
		}
		if n > 0 {
			for _, p := range uniq(0, n-1) {
				add(pt.Action{Op: "del1", P: p})
			}
			add(pt.Action{Op: "upd", P: n / 2, N: 1, V: "p"})
		}
	case r.li != nil:
		n := r.li.Size()
		ipos := uniq(0, n)
		if rich || strings.Contains(alpha, "mid") {
			ipos = uniq(0, n/2, n)
		}
		for _, p := range ipos {
			add(pt.Action{Op: "ins1", P: p, V: "p"})
		}
		if rich || strings.Contains(alpha, "batch") {
			add(pt.Action{Op: "ins", P: 0, N: 2, V: "p"})
		}
		if n > 0 {
			dpos := uniq(0, n-1)
			if rich || strings.Contains(alpha, "batch") {
				dpos = uniq(0, n/2, n-1)
			}
			for _, p := range dpos {
				add(pt.Action{Op: "del1", P: p})
				add(pt.Action{Op: "upd", P: p, N: 1, V: "p"})
				if strings.Contains(alpha, "same") {
					add(pt.Action{Op: "upd", P: p, N: 1, V: "k"})
				}
			}
			if n >= 2 && (rich || strings.Contains(alpha, "batch")) {
				add(pt.Action{Op: "del", P: 0, N: 2})
				add(pt.Action{Op: "upd", P: 0, N: 2, V: "p"})
			}
		}
	case r.doc != nil:
		objs, arrs, sizes := docContainers(r.doc.GetValue(), 2)
		shapes := []string{"p", "o", "a"}
		if rich {
			shapes = []string{"p", "o", "a", "n"}
		}
		if strings.Contains(alpha, "arr") {
			shapes = []string{"a"}
		}
		if strings.Contains(alpha, "nest") {
			shapes = []string{"na", "p"}
		}
		if strings.Contains(alpha, "cbatch") {
			shapes = append(shapes, "em", "eam")
		}
		if strings.Contains(alpha, "key1") {
			// one top-level key only (put a primitive / an object, delete): deep three-party conflicts on it
			shapes, objs, arrs = []string{"p", "o"}, []string{""}, nil
		}
		if strings.Contains(alpha, "same") {
			shapes = append(shapes, "k")
		}
		if strings.Contains(alpha, "alias") {
			shapes = []string{"sm", "p"}
		}
		for _, t := range objs {
			keys := []string{"a"}
			if rich {
				keys = []string{"a", "b"}
			}
			sh := shapes
			if t != "" {
				keys = []string{"x"}
				if strings.HasSuffix(t, "/o") || strings.Count(t, "/") >= 1 {
					keys = []string{"p"}
				}
				sh = []string{"p"}
			}
			m, _ := resolveValue(r.doc.GetValue(), t).(map[string]interface{})
			for _, k := range keys {
				for _, s := range sh {
					add(pt.Action{Op: "dput", T: t, K: k, V: s})
				}
				if _, ok := m[k]; ok {
					add(pt.Action{Op: "ddel", T: t, K: k})
				}
			}
			if t == "" && strings.Contains(alpha, "reserved") {
				// member names that the server itself uses in the document it keeps in the user's collection
				for _, k := range []string{"_id", "_orda_ver_"} {
					add(pt.Action{Op: "dput", T: t, K: k, V: "p"})
					if _, ok := m[k]; ok {
						add(pt.Action{Op: "ddel", T: t, K: k})
					}
				}
			}
			if t == "" && strings.Contains(alpha, "emptykey") {
				// the empty string is a legal member name
				add(pt.Action{Op: "dput", T: t, K: "", V: "p"})
				if _, ok := m[""]; ok {
					add(pt.Action{Op: "ddel", T: t, K: ""})
				}
			}
		}
		for _, t := range arrs {
			n := sizes[t]
			for _, p := range uniq(0, n) {
				add(pt.Action{Op: "dins", T: t, P: p, N: 1, V: "p"})
			}
			if rich || strings.Contains(alpha, "cbatch") {
				add(pt.Action{Op: "dins", T: t, P: 0, N: 2, V: "o"}) // a batch of containers: nested identifiers of several values in one operation
			}
			if strings.Contains(alpha, "cbatch") {
				add(pt.Action{Op: "dins", T: t, P: n, N: 2, V: "a"})
				if n >= 2 {
					add(pt.Action{Op: "dupd", T: t, P: 0, N: 2, V: "a"})
					// a range delete: its targets may come from one operation without being neighbours in its numbering
					// (containers number their members in between; an earlier delete leaves a hole)
					add(pt.Action{Op: "darrdel", T: t, P: 0, N: 2})
				}
				if n >= 3 {
					add(pt.Action{Op: "darrdel", T: t, P: n - 3, N: 3})
				}
			}
			if n > 0 {
				for _, p := range uniq(0, n-1) {
					add(pt.Action{Op: "dupd", T: t, P: p, N: 1, V: "p"})
					if strings.Contains(alpha, "same") {
						add(pt.Action{Op: "dupd", T: t, P: p, N: 1, V: "k"})
					}
					add(pt.Action{Op: "darrdel1", T: t, P: p})
				}
				if rich {
					add(pt.Action{Op: "dupd", T: t, P: 0, N: 1, V: "o"})
				}
			}
		}
	}
	return as
}

func resolveValue(v interface{}, path string) interface{} {
	if path == "" {
		return v
	}
	for _, seg := range strings.Split(path, "/") {
		switch x := v.(type) {
		case map[string]interface{}:
			v = x[seg]
		case []interface{}:
			i, _ := strconv.Atoi(seg)
			if i < 0 || i >= len(x) {
				return nil
			}
			v = x[i]
		default:
			return nil
		}
	}
	return v
}

func (m *e1Machine) Enabled() []pt.Action {
	var as []pt.Action
	for i := range m.w.reps {
		calls := localCalls(m.w, i, m.w.P.Alpha)
		as = append(as, calls...)
		maxSkips := m.params.MaxSkips
		if maxSkips == 0 {
			maxSkips = 1
		}
		maySkip := m.skips() < maxSkips
		if strings.Contains(m.w.P.Alpha, "tx") && len(calls) >= 1 {
			// bodies: every single valid call, and every valid call followed by the first one;
			// each committed, and (within the skip bound) failing after the calls ran
			// a body that does nothing, and one whose only call is refused: the unit is just its header
			as = append(as, pt.Action{Op: "tx", R: i, Sub: []pt.Action{}})
			if inv, ok := invalidCall(m.w, i); ok {
				as = append(as, pt.Action{Op: "tx", R: i, Sub: []pt.Action{inv}})
			}
			// a body during which a background sync applies an answer without news (DESIGN 11.7)
			ackBody := []pt.Action{calls[0], {Op: "ack", R: i}, calls[0]}
			as = append(as, pt.Action{Op: "tx", R: i, Sub: ackBody})
			if maySkip {
				as = append(as, pt.Action{Op: "tx", R: i, Sub: ackBody, Fail: true})
			}
			if m.w.typ == model.TypeOfDatatype_DOCUMENT {
				// a body that patches the document to a target (several operations: Patch opens a transaction of its own
				// inside the running one), alone and next to another call
				pb := pt.Action{Op: "patch", R: i, V: `{"a":"P1","b":["P2","P3"]}`}
				for _, b := range [][]pt.Action{{pb}, {calls[0], pb}, {pb, calls[0]}} {
					as = append(as, pt.Action{Op: "tx", R: i, Sub: b})
					if maySkip {
						as = append(as, pt.Action{Op: "tx", R: i, Sub: b, Fail: true})
					}
				}
				if maySkip {
					// a patch whose second operation is refused (a null member), in a body that goes on and returns nil: the
					// patch is one unit, so either the transaction fails as a whole or it commits without any of the patch
					bad := pt.Action{Op: "patch", R: i, V: badPatchTarget}
					as = append(as, pt.Action{Op: "tx", R: i, Sub: []pt.Action{bad}}, pt.Action{Op: "tx", R: i, Sub: []pt.Action{calls[0], bad}})
				}
			}
			if m.w.reps[i].txhUsable() {
				// transactions opened on a handle that was taken inside an earlier, finished transaction
				hp := pt.Action{Op: "dput", R: i, K: "hx", V: "p"}
				for _, b := range [][]pt.Action{{hp}, {hp, hp}} {
					as = append(as, pt.Action{Op: "tx", R: i, T: "@txh", Sub: b})
					if maySkip {
						as = append(as, pt.Action{Op: "tx", R: i, T: "@txh", Sub: b, Fail: true})
					}
				}
			}
			for _, c := range calls {
				bodies := [][]pt.Action{{c}, {c, calls[0]}}
				if inv, ok := invalidCall(m.w, i); ok {
					bodies = append(bodies, []pt.Action{c, inv})
				}
				for _, b := range bodies {
					as = append(as, pt.Action{Op: "tx", R: i, Sub: b})
					if maySkip {
						as = append(as, pt.Action{Op: "tx", R: i, Sub: b, Fail: true})
					}
				}
			}
		}
		if strings.Contains(m.w.P.Alpha, "inv") && maySkip {
			// single calls that must be refused, some by the argument checks, some only while the operation executes
			// (after it has taken its identifier): a refused call leaves no trace
			r := m.w.reps[i]
			switch {
			case r.mp != nil:
				as = append(as, pt.Action{Op: "rem", R: i, K: "zz", Fail: true}, pt.Action{Op: "put", R: i, K: "", V: "p", Fail: true})
			case r.li != nil:
				as = append(as, pt.Action{Op: "del1", R: i, P: r.li.Size(), Fail: true}, pt.Action{Op: "ins1", R: i, P: r.li.Size() + 1, V: "p", Fail: true})
			case r.doc != nil:
				as = append(as, pt.Action{Op: "ddel", R: i, K: "zz", Fail: true}, pt.Action{Op: "dins", R: i, T: "", P: 0, N: 1, V: "p", Fail: true})
			}
		}
		as = append(as, pt.Action{Op: "sync", R: i})
		if m.oracles["restore"] && maySkip && len(m.w.Pending(i)) == 0 {
			as = append(as, pt.Action{Op: "restore", R: i})
		}
		if m.oracles["badunit"] && maySkip {
			as = append(as, m.badUnits(i)...)
		}
	}
	return as
}

func (m *e1Machine) Key() (string, bool) {
	k, nt := m.w.Key()
	if n := m.skips(); n > 0 {
		// which replicas run on a restored instance is part of the state: two restored replicas may share what the import
		// built for them, one restored twice does not
		mask := 0
		for _, st := range m.hist {
			if st.a.Op == "restore" {
				mask |= 1 << uint(st.a.R)
			}
		}
		k = fmt.Sprintf("%s:s%d:r%d:m%d", k, n, m.restores, mask)
	}
	return k, nt
}

func (m *e1Machine) skips() int {
	n := 0
	for _, st := range m.hist {
		if st.skip {
			n++
		}
	}
	return n
}

// invalidCall returns one call that the replica must refuse in its current state.
func invalidCall(w *World, ri int) (pt.Action, bool) {
	r := w.reps[ri]
	switch {
	case r.mp != nil:
		return pt.Action{Op: "put", R: ri, K: "", V: "p"}, true
	case r.li != nil:
		return pt.Action{Op: "ins1", R: ri, P: r.li.Size() + 1, V: "p"}, true
	case r.doc != nil:
		return pt.Action{Op: "dins", R: ri, T: "", P: 0, N: 1, V: "p"}, true
	}
	return pt.Action{}, false
}
func (m *e1Machine) Outcome() string { return m.last }

func (m *e1Machine) Apply(a pt.Action) *pt.Violation {
	if a.Op == "restore" {
		m.hist = append(m.hist, twinStep{a: a, skip: true})
		m.restores++
		if v := m.restore(a.R); v != nil {
			return v
		}
		return m.checkTwin(a)
	}
	if a.Op == "badunit" {
		m.hist = append(m.hist, twinStep{a: a, skip: true})
		return m.applyBadUnit(a)
	}
	if a.Fail && a.Op != "tx" {
		// a single call that is expected to be refused
		before := m.fullState()
		tag0 := m.w.reps[a.R].nloc
		out := m.w.Step(a)
		m.last = fmt.Sprintf("%s|%s", out.Err, out.Ret)
		st := twinStep{a: a, tags: m.w.reps[a.R].nloc - tag0}
		if out.Panic != "" {
			m.hist = append(m.hist, st)
			return viol("C03:panic:"+a.Op, "%s panicked: %s", a, out.Panic)
		}
		if out.Err != "" {
			st.skip = true
			m.hist = append(m.hist, st)
			if after := m.fullState(); after != before {
				return viol("C15:refused-call-left-a-trace:"+m.w.P.Type+":"+a.Op+":"+diffField(after, before), "%s was refused (%s) but the world changed; first difference at %s", a, out.Err, firstDiff(after, before))
			}
			return m.checkTwin(a)
		}
		m.hist = append(m.hist, st) // accepted (as a no-op or otherwise): an ordinary step
		return nil
	}
	tag0 := m.w.reps[a.R].nloc
	var keyBefore string
	var npend0 int
	if a.Op == "tx" && m.oracles["tx"] {
		keyBefore = m.fullState()
		npend0 = len(m.w.Pending(a.R))
	}
	v := m.apply1(a)
	st := twinStep{a: a, tags: m.w.reps[a.R].nloc - tag0}
	if a.Op == "tx" && (a.Fail || (hasBadPatch(a) && m.w.last.Err != "")) {
		st.skip = true
	}
	m.hist = append(m.hist, st)
	if v != nil {
		return v
	}
	if a.Op == "tx" && m.oracles["tx"] {
		if v := m.checkTx(a, keyBefore, npend0); v != nil {
			return v
		}
	}
	if !m.isTwin && (m.oracles["tx"] || m.oracles["restore"]) {
		return m.checkTwin(a)
	}
	return nil
}

func (m *e1Machine) apply1(a pt.Action) *pt.Violation {
	var pre []string
	if m.oracles["ids"] && a.Op != "sync" {
		pre = appliedIDs(m.w, a.R)
	}
	out := m.w.Step(a)
	m.last = fmt.Sprintf("%s|%s", out.Err, out.Ret)
	if out.Panic != "" {
		return viol("E1:panic:"+a.Op+":"+firstLine(out.Panic), "%s panicked: %s", a, out.Panic)
	}
	if out.Leak != "" {
		return viol("C01:read-hands-out-the-replica's-own-state:"+m.w.P.Type, "%s: no operation was issued, yet the replica reads differently (%s): replicas that applied the same operations differ", a, out.Leak)
	}
	if a.Op == "sync" && out.Err != "" {
		return viol("E1:deliver-error:"+out.Err, "replica %d failed to apply operations from the log: %v", a.R, m.w.errs)
	}
	if a.Op != "sync" && a.Op != "tx" && out.Err != "" {
		return viol("E1:valid-call-refused:"+a.Op, "%s (generated as valid for the replica's current state) returned %s", a, out.Err)
	}
	if m.oracles["elements"] {
		if v := m.checkElements(a); v != nil {
			return v
		}
	}
	if m.oracles["ids"] {
		if v := m.checkIDs(a, pre); v != nil {
			return v
		}
	}
	return nil
}

// Close evaluates the convergence oracle at the quiescence closure of the current state.
func (m *e1Machine) Close() *pt.Violation {
	if !m.oracles["converge"] && !m.oracles["reference"] && !m.oracles["snapresume"] {
		return nil
	}
	m.w.CloseSyncs()
	if m.oracles["elements"] {
		if v := m.checkElements(pt.Action{Op: "closure"}); v != nil {
			return v
		}
	}
	if m.oracles["snapresume"] {
		if v := m.snapResume(); v != nil {
			return v
		}
	}
	if len(m.w.errs) > 0 {
		return viol("E1:deliver-error", "delivery errors during closure: %v", m.w.errs)
	}
	for i := range m.w.reps {
		if n := len(m.w.Pending(i)); n != 0 {
			return viol("E1:harness:closure-pending", "replica %d still has %d pending operations after closure", i, n)
		}
	}
	views := make([]string, len(m.w.reps))
	for i, r := range m.w.reps {
		views[i] = r.View()
	}
	if m.oracles["converge"] {
		for i := 1; i < len(views); i++ {
			if views[i] != views[0] {
				return viol("C01:replicas-diverge:"+m.w.P.Type+":"+diffClass(views[0], views[i]),
					"after all replicas received the same %d operations:\n r0: %s\n r%d: %s", len(m.w.log), views[0], i, views[i])
			}
		}
		sc, err := m.w.ServerCopy(len(m.w.log))
		if err != nil {
			return viol("C01:server-copy-error", "server copy cannot apply the log: %v", err)
		}
		if sv := sc.View(); sv != views[0] {
			return viol("C01:server-copy-diverges:"+m.w.P.Type+":"+diffClass(views[0], sv),
				"server copy (whole log as remote operations) differs:\n r0:     %s\n server: %s", views[0], sv)
		}
	}
	if m.oracles["reference"] {
		want, err := referenceView(m.w.P.Type, m.w.log)
		if err != nil {
			return viol("C02:harness:reference", "reference cannot be computed: %v", err)
		}
		for i := range views {
			if views[i] != want {
				return viol("C02:outcome-differs-from-timestamp-rule:"+m.w.P.Type+":"+diffClass(want, views[i]),
					"replica %d differs from the outcome computed from the operation set alone:\n impl: %s\n ref:  %s", i, views[i], want)
			}
		}
		sc, err := m.w.ServerCopy(len(m.w.log))
		if err != nil {
			return viol("C02:server-copy-error", "server copy cannot apply the log: %v", err)
		}
		if sv := sc.View(); sv != want {
			return viol("C02:server-copy-differs-from-timestamp-rule:"+m.w.P.Type+":"+diffClass(want, sv),
				"server copy differs from the reference:\n impl: %s\n ref:  %s", sv, want)
		}
	}
	return nil
}

// diffClass names the first component of two views that differs (size / json / reads).
func diffClass(a, b string) string {
	fa, fb := strings.Fields(a), strings.Fields(b)
	for i := 0; i < len(fa) && i < len(fb); i++ {
		if fa[i] != fb[i] {
			if j := strings.IndexAny(fa[i], "=("); j > 0 {
				return fa[i][:j]
			}
			return "field"
		}
	}
	return "length"
}

// ---------------------------------------------------------------------------------------------
// identifiers (C15b)
// ---------------------------------------------------------------------------------------------

func tsStr(t *model.Timestamp) string {
	if t == nil {
		return "nil"
	}
	return fmt.Sprintf("%d:%d:%s:%d", t.Era, t.Lamport, t.CUID, t.Delimiter)
}

// appliedIDs returns "lamport:cuid" of every operation replica i has applied (own + delivered).
func appliedIDs(w *World, i int) []string {
	r := w.reps[i]
	var ids []string
	for j := 0; j < r.cursor && j < len(w.log); j++ {
		ids = append(ids, fmt.Sprintf("%d:%s", w.log[j].ID.Lamport, w.log[j].ID.CUID))
	}
	for _, op := range w.Pending(i) {
		ids = append(ids, fmt.Sprintf("%d:%s", op.ID.Lamport, op.ID.CUID))
	}
	return ids
}

func (m *e1Machine) checkIDs(a pt.Action, pre []string) *pt.Violation {
	w := m.w
	for i, r := range w.reps {
		// own operations: log part + pending part are numbered 1,2,3...
		seq := uint64(0)
		var lastLamport uint64
		own := []*model.Operation{}
		for _, op := range w.log {
			if op.ID.CUID == r.cuid {
				own = append(own, op)
			}
		}
		own = append(own, w.Pending(i)...)
		for _, op := range own {
			seq++
			if op.ID.Seq != seq {
				return viol("C15:own-seq-not-consecutive", "replica %d: operation %s has seq %d, expected %d (after %s)", i, op.OpType, op.ID.Seq, seq, a)
			}
			if op.ID.Lamport <= lastLamport && op.OpType != model.TypeOfOperation_TRANSACTION {
				// operations of one transaction share... no: every operation gets its own Next()
				return viol("C15:own-lamport-not-increasing", "replica %d: lamport %d after %d", i, op.ID.Lamport, lastLamport)
			}
			lastLamport = op.ID.Lamport
		}
	}
	if a.Op != "sync" && pre != nil {
		// every operation created by this step is ordered after everything the replica had applied
		r := w.reps[a.R]
		maxPre := uint64(0)
		seen := map[string]bool{}
		for _, id := range pre {
			seen[id] = true
			l, _ := strconv.ParseUint(id[:strings.Index(id, ":")], 10, 64)
			if l > maxPre {
				maxPre = l
			}
		}
		for _, op := range w.Pending(a.R) {
			id := fmt.Sprintf("%d:%s", op.ID.Lamport, op.ID.CUID)
			if seen[id] {
				continue
			}
			if op.ID.Lamport <= maxPre {
				return viol("C15:new-op-not-after-applied", "replica %d: new operation lamport %d is not greater than an applied operation's lamport %d", r.idx, op.ID.Lamport, maxPre)
			}
		}
	}
	// identifiers inside every exported state are pairwise distinct, and distinct identifiers have distinct keys
	for i, r := range w.reps {
		_, snap := r.Export()
		ids := snapshotIDs(w.P.Type, snap)
		byHash := map[string]string{}
		for _, id := range ids {
			h := hashOf(id)
			if prev, ok := byHash[h]; ok && prev != id {
				return viol("C15:identifier-key-collision", "replica %d: distinct identifiers %s and %s share the index key %q", i, prev, id, h)
			}
			byHash[h] = id
		}
		seen := map[string]bool{}
		for _, id := range ids {
			if seen[id] {
				return viol("C15:duplicate-identifier", "replica %d: identifier %s occurs twice in the exported state", i, id)
			}
			seen[id] = true
		}
	}
	return nil
}

// hashOf computes the index key of an identifier with the implementation's own Timestamp.Hash.
func hashOf(id string) string {
	p := strings.Split(id, ":")
	if len(p) != 4 {
		return id
	}
	era, _ := strconv.ParseUint(p[0], 10, 32)
	lam, _ := strconv.ParseUint(p[1], 10, 64)
	del, _ := strconv.ParseUint(p[3], 10, 32)
	return model.NewTimestamp(uint32(era), lam, p[2], uint32(del)).Hash()
}

type exportedList struct {
	Nodes []struct {
		V interface{}
		T *model.Timestamp
		O *model.Timestamp
	}
	Size int
}

type exportedDocNode struct {
	C *model.Timestamp `json:"c"`
	T string           `json:"t"`
	P *model.Timestamp `json:"p"`
	D *model.Timestamp `json:"d"`
	E interface{}      `json:"e"`
	A *struct {
		N [][2]*model.Timestamp `json:"n"`
		S int                   `json:"s"`
	} `json:"a"`
	O *struct {
		M map[string]*model.Timestamp `json:"m"`
		S int                         `json:"s"`
	} `json:"o"`
}

type exportedDoc struct {
	NM []*exportedDocNode `json:"nm"`
}

// snapshotIDs lists the element/node identifiers of an exported snapshot (list: order ids;
// document: creation ids of all nodes and order ids of all array slots).
func snapshotIDs(typ, snap string) []string {
	var ids []string
	switch typ {
	case "list":
		var l exportedList
		json.Unmarshal([]byte(snap), &l)
		for _, n := range l.Nodes {
			ids = append(ids, tsStr(n.O))
		}
	case "doc":
		var d exportedDoc
		json.Unmarshal([]byte(snap), &d)
		for _, n := range d.NM {
			ids = append(ids, tsStr(n.C))
		}
	}
	return ids
}

// ---------------------------------------------------------------------------------------------
// list / array elements (C04)
// ---------------------------------------------------------------------------------------------

// internalOrders returns, per ordered container of the replica ("" for a List; creation id for a
// document array), the internal total order of slot identifiers (live and tombstoned).
func internalOrders(r *Replica) map[string][]string {
	_, snap := r.Export()
	res := map[string][]string{}
	if r.li != nil {
		var l exportedList
		json.Unmarshal([]byte(snap), &l)
		var o []string
		for _, n := range l.Nodes {
			o = append(o, tsStr(n.O))
		}
		res[""] = o
	} else if r.doc != nil {
		var d exportedDoc
		json.Unmarshal([]byte(snap), &d)
		for _, n := range d.NM {
			if n.A != nil {
				var o []string
				for _, e := range n.A.N {
					o = append(o, tsStr(e[0]))
				}
				res[tsStr(n.C)] = o
			}
		}
	}
	return res
}

func isSubsequence(sub, full []string) bool {
	j := 0
	for _, x := range full {
		if j < len(sub) && sub[j] == x {
			j++
		}
	}
	return j == len(sub)
}

// elemOps extracts from a set of operations the list/array element events:
// inserted element ids with their tags, deletes, update tag -> element id.
type elemInfo struct {
	inserted map[string]bool   // element id -> inserted
	deleted  map[string]bool   // element id -> some delete received
	tagElem  map[string]string // tag -> element id (insert value or update value)
	arr      map[string]string // element id -> container ("" list, creation id of array)
}

func collectElems(ops []*model.Operation) *elemInfo {
	ei := &elemInfo{inserted: map[string]bool{}, deleted: map[string]bool{}, tagElem: map[string]string{}, arr: map[string]string{}}
	tagOf := func(v interface{}) string {
		if s, ok := v.(string); ok {
			return s
		}
		return "json:" + jsonStr(v)
	}
	for _, mop := range ops {
		switch op := operations.ModelToOperation(mop).(type) {
		case *operations.InsertOperation:
			ts := mop.ID.GetTimestamp()
			for _, v := range op.GetBody().V {
				id := tsStr(ts.GetAndNextDelimiter())
				ei.inserted[id] = true
				ei.tagElem[tagOf(v)] = id
				ei.arr[id] = ""
			}
		case *operations.DeleteOperation:
			for _, t := range op.GetBody().T {
				ei.deleted[tsStr(t)] = true
			}
		case *operations.UpdateOperation:
			for i, t := range op.GetBody().T {
				ei.tagElem[tagOf(op.GetBody().V[i])] = tsStr(t)
			}
		}
	}
	return ei
}

// received returns the operations replica i has applied: log prefix up to its cursor + own pending.
func received(w *World, i int) []*model.Operation {
	r := w.reps[i]
	var ops []*model.Operation
	for j := 0; j < r.cursor && j < len(w.log); j++ {
		ops = append(ops, w.log[j])
	}
	ops = append(ops, w.Pending(i)...)
	return ops
}

func (m *e1Machine) checkElements(a pt.Action) *pt.Violation {
	w := m.w
	orders := make([]map[string][]string, len(w.reps))
	for i, r := range w.reps {
		orders[i] = internalOrders(r)
		// (1) the step keeps the relative order of all elements present before it
		for c, prev := range m.prevOrder[i] {
			if !isSubsequence(prev, orders[i][c]) {
				return viol("C04:step-reordered-elements", "replica %d container %q: order before step %v is not a subsequence of order after %s: %v", i, c, prev, a, orders[i][c])
			}
		}
		// no slot id twice
		for c, o := range orders[i] {
			seen := map[string]bool{}
			for _, id := range o {
				if seen[id] {
					return viol("C04:duplicate-slot", "replica %d container %q holds slot %s twice", i, c, id)
				}
				seen[id] = true
			}
		}
	}
	// (2) replicas agree on the relative order of their common elements at every moment
	for i := 0; i < len(w.reps); i++ {
		for j := i + 1; j < len(w.reps); j++ {
			for c, oi := range orders[i] {
				oj, ok := orders[j][c]
				if !ok {
					continue
				}
				inJ := map[string]bool{}
				for _, id := range oj {
					inJ[id] = true
				}
				inI := map[string]bool{}
				for _, id := range oi {
					inI[id] = true
				}
				var ci, cj []string
				for _, id := range oi {
					if inJ[id] {
						ci = append(ci, id)
					}
				}
				for _, id := range oj {
					if inI[id] {
						cj = append(cj, id)
					}
				}
				if strings.Join(ci, ",") != strings.Join(cj, ",") {
					return viol("C04:replicas-disagree-on-order", "container %q after %s: replica %d orders common elements %v, replica %d orders them %v", c, a, i, ci, j, cj)
				}
			}
		}
	}
	m.prevOrder = orders
	// (3) List: presence by tags through the public API
	if w.typ == model.TypeOfDatatype_LIST {
		for i, r := range w.reps {
			ei := collectElems(received(w, i))
			vals, _ := r.li.ToJSON().(struct{ List []interface{} })
			var visible []interface{}
			if b, err := json.Marshal(r.li.ToJSON()); err == nil {
				var x struct{ List []interface{} }
				json.Unmarshal(b, &x)
				visible = x.List
			}
			_ = vals
			seen := map[string]bool{}
			for _, v := range visible {
				tag, _ := v.(string)
				id, ok := ei.tagElem[tag]
				if !ok {
					return viol("C04:unknown-element-visible", "replica %d shows value %v that belongs to no element it has received (after %s)", i, v, a)
				}
				if seen[id] {
					return viol("C04:element-duplicated", "replica %d shows element %s twice (after %s): %v", i, id, a, visible)
				}
				seen[id] = true
				if ei.deleted[id] {
					return viol("C04:deleted-element-visible", "replica %d shows element %s although it has received its delete (after %s)", i, id, a)
				}
			}
			for id := range ei.inserted {
				if !ei.deleted[id] && !seen[id] {
					return viol("C04:element-lost", "replica %d does not show element %s whose insert it has received and that nobody deleted (after %s): %v", i, id, a, visible)
				}
			}
			if len(visible) != r.li.Size() {
				return viol("C04:size-mismatch", "replica %d: Size()=%d but %d elements visible", i, r.li.Size(), len(visible))
			}
		}
		// a local insert at index i is immediately readable at index i
		if (a.Op == "ins1" || a.Op == "ins") && m.w.last.Err == "" {
			r := w.reps[a.R]
			n := a.N
			if a.Op == "ins1" {
				n = 1
			}
			got, err := r.li.GetMany(a.P, n)
			var ins []interface{}
			json.Unmarshal([]byte(m.w.last.Ret), &ins)
			if err != nil || jsonStr(got) != jsonStr(ins) {
				return viol("C04:local-insert-not-at-index", "%s: GetMany(%d,%d)=%s, inserted %s", a, a.P, n, jsonStr(got), jsonStr(ins))
			}
		}
	}
	return nil
}

// ---------------------------------------------------------------------------------------------
// twin world (C09 / C10): the same history without the steps that must be unobservable
// ---------------------------------------------------------------------------------------------

// fullState is everything observable about the world: per replica view, export, pending operations; log.
func (m *e1Machine) fullState() string {
	var sb strings.Builder
	for i, r := range m.w.reps {
		meta, snap := r.Export()
		fmt.Fprintf(&sb, "R%d view=%s\n meta=%s\n snap=%s\n pend=%s\n", i, r.View(), meta, snap, opsDigest(m.w.Pending(i)))
	}
	fmt.Fprintf(&sb, "LOG %s", opsDigest(m.w.log))
	return sb.String()
}

func (m *e1Machine) buildTwin() *e1Machine {
	p := m.params
	p.Oracles = nil
	b, _ := json.Marshal(p)
	t := newE1(b)
	t.isTwin = true
	for _, st := range m.hist {
		if st.skip {
			if st.a.R < len(t.w.reps) {
				t.w.reps[st.a.R].nloc += st.tags
			}
			continue
		}
		t.w.Step(st.a)
	}
	return t
}

func firstDiff(a, b string) string {
	la, lb := strings.Split(a, "\n"), strings.Split(b, "\n")
	for i := 0; i < len(la) && i < len(lb); i++ {
		if la[i] != lb[i] {
			return fmt.Sprintf("line %d:\n  with:    %s\n  without: %s", i, clip(la[i], 700), clip(lb[i], 700))
		}
	}
	return "length differs"
}

func clip(s string, n int) string {
	if len(s) > n {
		return s[:n] + "..."
	}
	return s
}

func diffField(a, b string) string {
	la, lb := strings.Split(a, "\n"), strings.Split(b, "\n")
	for i := 0; i < len(la) && i < len(lb); i++ {
		if la[i] != lb[i] {
			f := strings.TrimSpace(la[i])
			if j := strings.IndexAny(f, "= "); j > 0 {
				return f[:j]
			}
			return "line"
		}
	}
	return "length"
}

// checkTwin compares the world with its twin (history without failed transactions / restores).
func (m *e1Machine) checkTwin(a pt.Action) *pt.Violation {
	for _, sh := range m.shadows {
		_, s2 := sh.rep.Export()
		if v := sh.rep.View(); v != sh.view || s2 != sh.snap {
			return viol("C10:restored-instances-share-state:"+m.w.P.Type, "after %s: a second instance that imported the same export as replica %d's restored instance, and has not been touched since, changed:\n at import: %s\n now:       %s", a, sh.of, sh.view, v)
		}
	}
	need := false
	for _, st := range m.hist {
		if st.skip {
			need = true
		}
	}
	if !need {
		return nil
	}
	t := m.buildTwin()
	got, want := m.fullState(), t.fullState()
	if got != want {
		kind := "C09:failed-transaction-left-trace"
		if m.restores > 0 {
			kind = "C10:restored-replica-distinguishable"
		}
		return viol(kind+":"+m.w.P.Type+":"+diffField(got, want),
			"after %s the world differs from the same history without its failed transactions / restore steps; first difference at %s", a, firstDiff(got, want))
	}
	return nil
}

// checkTx: a failed body leaves everything as before; a committed one queues one contiguous unit.
func (m *e1Machine) checkTx(a pt.Action, before string, npend0 int) *pt.Violation {
	if m.w.last.Panic != "" {
		return nil
	}
	if a.Fail || (hasBadPatch(a) && m.w.last.Err != "") {
		if after := m.fullState(); after != before {
			return viol("C09:failed-transaction-changed-state:"+m.w.P.Type+":"+diffField(after, before),
				"%s returned an error but the world changed; first difference at %s", a, firstDiff(after, before))
		}
		return nil
	}
	if m.w.last.Err != "" {
		return viol("C09:transaction-refused", "%s: body succeeded but Transaction returned %s", a, m.w.last.Err)
	}
	pend := m.w.Pending(a.R)
	unit := pend[npend0:]
	if len(unit) == 0 {
		return viol("C09:committed-transaction-queued-nothing", "%s queued no operation", a)
	}
	if unit[0].OpType != model.TypeOfOperation_TRANSACTION {
		return viol("C09:unit-without-header", "%s: first queued operation is %s", a, unit[0].OpType)
	}
	txOp := operations.ModelToOperation(unit[0]).(*operations.TransactionOperation)
	if int(txOp.GetNumOfOps()) != len(unit) {
		return viol("C09:unit-length-mismatch", "%s: header announces %d operations, unit has %d", a, txOp.GetNumOfOps(), len(unit))
	}
	for i := 1; i < len(unit); i++ {
		if unit[i].ID.Seq != unit[i-1].ID.Seq+1 {
			return viol("C09:unit-not-contiguous", "%s: seq %d follows %d", a, unit[i].ID.Seq, unit[i-1].ID.Seq)
		}
		if unit[i].OpType == model.TypeOfOperation_TRANSACTION {
			return viol("C09:nested-header", "%s: unit contains a second header", a)
		}
	}
	return nil
}

const badPatchTarget = `{"a":"P1","zz":null}`

func hasBadPatch(a pt.Action) bool {
	for _, s := range a.Sub {
		if s.Op == "patch" && s.V == badPatchTarget {
			return true
		}
	}
	return false
}

// nextUnit returns the next unit in the log that replica i has not received (nil if none or own).
func (m *e1Machine) nextUnit(i int) []*model.Operation {
	r := m.w.reps[i]
	j := r.cursor
	for j < len(m.w.log) && m.w.log[j].ID.CUID == r.cuid {
		j++
	}
	if j >= len(m.w.log) || m.w.log[j].OpType != model.TypeOfOperation_TRANSACTION {
		return nil
	}
	tx := operations.ModelToOperation(m.w.log[j]).(*operations.TransactionOperation)
	n := int(tx.GetNumOfOps())
	if j+n > len(m.w.log) {
		return nil
	}
	var u []*model.Operation
	for k := j; k < j+n; k++ {
		u = append(u, cloneOp(m.w.log[k]))
	}
	return u
}

// badUnits: deliveries of the next committed unit in truncated or over-announced form.
func (m *e1Machine) badUnits(i int) []pt.Action {
	u := m.nextUnit(i)
	if u == nil {
		return nil
	}
	var as []pt.Action
	for k := 1; k < len(u); k++ {
		as = append(as, pt.Action{Op: "badunit", R: i, N: k, K: "truncated"})
	}
	as = append(as, pt.Action{Op: "badunit", R: i, N: len(u), K: "overcount"})
	// a unit of the announced length whose k-th operation has a body that cannot be decoded (k >= 2: something of the
	// unit comes before it)
	for k := 2; k < len(u); k++ {
		as = append(as, pt.Action{Op: "badunit", R: i, N: k, K: "garbled"})
	}
	// ... and one whose header (the operation that announces the unit) cannot be decoded
	as = append(as, pt.Action{Op: "badunit", R: i, N: 0, K: "garbled"})
	return as
}

func (m *e1Machine) applyBadUnit(a pt.Action) *pt.Violation {
	u := m.nextUnit(a.R)
	if u == nil {
		return viol("E1:harness:badunit", "no unit to corrupt")
	}
	r := m.w.reps[a.R]
	var ops []*model.Operation
	switch a.K {
	case "truncated":
		ops = make([]*model.Operation, a.N) // exact capacity
		copy(ops, u[:a.N])
	case "garbled":
		ops = make([]*model.Operation, len(u))
		for j := range u {
			ops[j] = cloneOp(u[j])
		}
		ops[a.N].Body = []byte("{not json")
	default:
		tx := operations.ModelToOperation(u[0]).(*operations.TransactionOperation)
		tx.SetNumOfOps(len(u) + 1)
		h := tx.ToModelOperation()
		ops = make([]*model.Operation, len(u))
		copy(ops, u)
		ops[0] = h
	}
	before := m.fullState()
	var perr interface{}
	var err error
	func() {
		defer func() { perr = recover() }()
		verifrt.SetMode(r.mode)
		_, e := r.dt.ReceiveRemoteModelOperations(ops, false)
		if e != nil {
			err = e
		}
	}()
	m.last = fmt.Sprintf("badunit %s/%d err=%v panic=%v", a.K, a.N, err != nil, perr != nil)
	if perr != nil {
		return viol("C09:incomplete-unit-panics:"+a.K, "delivering a %s unit (%d of %d operations) to replica %d panicked: %v", a.K, a.N, len(u), a.R, perr)
	}
	if err == nil {
		return viol("C09:incomplete-unit-accepted:"+a.K, "delivering a %s unit (%d of %d operations) to replica %d returned no error", a.K, a.N, len(u), a.R)
	}
	if after := m.fullState(); after != before {
		return viol("C09:incomplete-unit-partially-applied:"+a.K+":"+diffField(after, before),
			"a refused %s unit changed replica %d; first difference at %s", a.K, a.R, firstDiff(after, before))
	}
	return nil
}

// restore replaces replica i by a fresh instance that imported its exported meta and snapshot
// (what transaction rollback does: SetMetaAndSnapshot).
func (m *e1Machine) restore(i int) *pt.Violation {
	old := m.w.reps[i]
	meta, snap, err := old.dt.GetMetaAndSnapshot()
	if err != nil {
		return viol("C10:export-failed", "replica %d export: %v", i, err)
	}
	var nr *Replica // subscribe-style: empty buffer
	if i < len(m.spares) && len(m.spares[i]) > 0 {
		nr, m.spares[i] = m.spares[i][0], m.spares[i][1:]
	} else {
		nr = newReplica(50+i, m.w.typ, false, old.mode)
	}
	var perr interface{}
	var ierr error
	func() {
		defer func() { perr = recover() }()
		if e := nr.dt.SetMetaAndSnapshot(meta, snap); e != nil {
			ierr = e
		}
	}()
	if perr != nil {
		return viol("C10:import-panics", "import of replica %d's export panicked: %v", i, perr)
	}
	if ierr != nil {
		return viol("C10:import-failed", "import of replica %d's export failed: %v", i, ierr)
	}
	if !m.isTwin && i < len(m.spares) && len(m.spares[i]) > 0 {
		var sh *Replica
		sh, m.spares[i] = m.spares[i][0], m.spares[i][1:]
		func() {
			defer func() { recover() }() // a failing import was reported above
			if e := sh.dt.SetMetaAndSnapshot(meta, snap); e == nil {
				_, s2 := sh.Export()
				m.shadows = append(m.shadows, shadow{rep: sh, of: i, view: sh.View(), snap: s2})
			}
		}()
	}
	// the imported state is the instance's new rollback point, as on every import path of the SDK (a subscriber that
	// received its first state re-takes the point, and so does a rollback after its own import); the import call alone
	// leaves the point where it was - before the import - see DESIGN.md 11.10
	if rt, ok := nr.dt.(interface{ ResetTransaction() errors.OrdaError }); ok {
		if e := rt.ResetTransaction(); e != nil {
			return viol("C10:import-failed", "re-taking the rollback point after the import of replica %d's export failed: %v", i, e)
		}
	} else {
		return viol("E1:harness:no-reset-transaction", "datatype %T does not expose ResetTransaction", nr.dt)
	}
	// the restored instance continues the old one's numbering; its buffer starts empty, which is
	// what the old one's buffer looks like from the push side when nothing is pending
	nr.idx, nr.cuid, nr.cursor, nr.pushed, nr.nloc = old.idx, old.cuid, old.cursor, old.pushed, old.nloc
	nr.gotRem, nr.hasLoc, nr.recv = old.gotRem, old.hasLoc, old.recv
	nr.dt.SetCheckPoint(uint64(old.cursor), uint64(old.pushed))
	if a, b := old.View(), nr.View(); a != b {
		return viol("C10:restored-view-differs:"+m.w.P.Type+":"+diffClass(a, b), "replica %d:\n original: %s\n restored: %s", i, a, b)
	}
	m1, s1 := old.Export()
	m2, s2 := nr.Export()
	if m1 != m2 || s1 != s2 {
		return viol("C10:re-export-differs:"+m.w.P.Type, "replica %d:\n original: %s | %s\n restored: %s | %s", i, m1, clip(s1, 1500), m2, clip(s2, 1500))
	}
	m.w.reps[i] = nr
	return nil
}

// snapResume: restoring the server copy from its snapshot at any log position v and applying the
// rest of the log gives the same readable state as applying the whole log (server/snapshot.Manager).
func (m *e1Machine) snapResume() *pt.Violation {
	full, err := m.w.ServerCopy(len(m.w.log))
	if err != nil {
		return nil // reported by the convergence oracle
	}
	want := full.View()
	for v := 1; v < len(m.w.log); v++ {
		if m.w.log[v].OpType != model.TypeOfOperation_TRANSACTION && v > 0 {
			// cutting inside a transaction unit is not something the server does
			inside := false
			for j := 0; j < v; j++ {
				if m.w.log[j].OpType == model.TypeOfOperation_TRANSACTION {
					n := int(operations.ModelToOperation(m.w.log[j]).(*operations.TransactionOperation).GetNumOfOps())
					if j+n > v {
						inside = true
					}
				}
			}
			if inside {
				continue
			}
		}
		part, err := m.w.ServerCopy(v)
		if err != nil {
			continue
		}
		meta, snap, e := part.dt.GetMetaAndSnapshot()
		if e != nil {
			return viol("C10:export-failed", "server copy export at %d: %v", v, e)
		}
		nr := newReplica(60, m.w.typ, true, 0)
		var perr interface{}
		var aerr error
		func() {
			defer func() { perr = recover() }()
			if e := nr.dt.SetMetaAndSnapshot(meta, snap); e != nil {
				aerr = e
				return
			}
			nr.dt.ResetWired()
			rest := make([]*model.Operation, 0, len(m.w.log)-v)
			for j := v; j < len(m.w.log); j++ {
				rest = append(rest, cloneOp(m.w.log[j]))
			}
			exact := make([]*model.Operation, len(rest))
			copy(exact, rest)
			if _, e := nr.dt.ReceiveRemoteModelOperations(exact, false); e != nil {
				aerr = e
			}
		}()
		if perr != nil {
			return viol("C10:snapshot-resume-panics", "restore at log position %d then tail: panic %v", v, perr)
		}
		if aerr != nil {
			return viol("C10:snapshot-resume-error", "restore at log position %d then tail: %v", v, aerr)
		}
		if got := nr.View(); got != want {
			return viol("C10:snapshot-plus-tail-differs:"+m.w.P.Type+":"+diffClass(want, got),
				"snapshot at log position %d + later operations differs from the whole log:\n whole: %s\n resumed: %s", v, want, got)
		}
	}
	return nil
}
