package w

import (
	"encoding/json"
	"fmt"

	"github.com/orda-io/orda/client/pkg/model"

	"verif/h/pt"
)

// C15a: exhaustive grid over (era, lamport, cuid, delimiter): the identifier key is injective and
// Compare is a strict total order, consistent between Timestamp and OperationID.

type gridParams struct {
	MaxLamport int `json:"max_lamport"`
	MaxDelim   int `json:"max_delim"`
	Sub        int `json:"sub"` // size of the lamport sub-grid used for the triple (transitivity) check
}

func sign(x int) int {
	if x > 0 {
		return 1
	}
	if x < 0 {
		return -1
	}
	return 0
}

func init() {
	jobKinds["grid"] = func(job *pt.Job, emit func(pt.Line, bool)) {
		var p gridParams
		json.Unmarshal(job.Params, &p)
		info := pt.ShardInfo{Exhaustive: true}
		nt := map[string]bool{}
		addViol := func(sig, msg string, extra interface{}) {
			for _, v := range info.Violations {
				if v.Viol.Sig == sig {
					return
				}
			}
			eb, _ := json.Marshal(extra)
			info.Violations = append(info.Violations, pt.ShardViol{Viol: pt.Violation{Sig: sig, Msg: msg}, Extra: eb})
		}
		cuids := []string{"u000000000000001", "u000000000000002", "1u00000000000003"}
		lamports := []uint64{}
		for l := 0; l <= p.MaxLamport; l++ {
			lamports = append(lamports, uint64(l))
		}
		for _, l := range []uint64{1<<31 - 1, 1 << 31, 1<<32 - 1, 1 << 32, 1<<53 + 1, 1<<62 - 1, 1 << 62} {
			lamports = append(lamports, l)
		}
		// (1) injectivity of the identifier key
		seen := make(map[string][4]uint64, len(lamports)*p.MaxDelim*6)
		for era := uint32(0); era <= 1; era++ {
			for _, l := range lamports {
				delims := make([]uint32, 0, p.MaxDelim+12)
				for d := 0; d <= p.MaxDelim; d++ {
					delims = append(delims, uint32(d))
				}
				// the element index of very large batches and nested values, at the widths it could be narrowed to
				delims = append(delims, 255, 256, 257, 65535, 65536, 65537, 1<<24, 1<<31-1, 1<<31, 1<<32-1)
				for _, d := range delims {
					for ci, c := range cuids {
						ts := model.NewTimestamp(era, l, c, d)
						h := ts.Hash()
						info.Evaluations++
						cur := [4]uint64{uint64(era), l, uint64(ci), uint64(d)}
						if prev, ok := seen[h]; ok && prev != cur {
							nt["collision"] = true
							addViol("C15:identifier-key-collision:grid",
								fmt.Sprintf("distinct identifiers (era %d, lamport %d, cuid#%d, delimiter %d) and (era %d, lamport %d, cuid#%d, delimiter %d) share key %q",
									prev[0], prev[1], prev[2], prev[3], cur[0], cur[1], cur[2], cur[3], h),
								map[string]interface{}{"a": prev, "b": cur, "key": h})
						} else {
							seen[h] = cur
						}
					}
				}
			}
		}
		info.States = len(seen)
		info.NontrivialCount = len(seen) // distinct identifier keys observed
		// (2) order axioms on a sub-grid (all pairs, all triples)
		type pnt struct {
			ts *model.Timestamp
			id *model.OperationID
		}
		var pts []pnt
		subL := []uint64{}
		for l := 0; l < p.Sub; l++ {
			subL = append(subL, uint64(l))
		}
		subL = append(subL, 1<<31-1, 1<<31, 1<<32, 1<<62-1, 1<<62, 1<<63-1, 1<<63, 1<<64-1) // (differences of 2^63 and more: an order taken from a signed difference wraps)
		for _, era := range []uint32{0, 1, 1<<31 - 1, 1 << 31, 1<<32 - 1} {
			for _, l := range subL {
				// for the order axioms also ids that differ only in case and ids from the other classes of the id alphabet
				for _, c := range append(append([]string{}, cuids...), "U000000000000001", "_u00000000000003") {
					pts = append(pts, pnt{model.NewTimestamp(era, l, c, uint32(l%3)), &model.OperationID{Era: era, Lamport: l, CUID: c, Seq: l}})
				}
			}
		}
		for i, a := range pts {
			if a.ts.Compare(a.ts) != 0 {
				addViol("C15:compare-not-irreflexive", fmt.Sprintf("%s compares %d with itself", a.ts.ToString(), a.ts.Compare(a.ts)), nil)
			}
			for j, b := range pts {
				info.Evaluations++
				ab, ba := sign(a.ts.Compare(b.ts)), sign(b.ts.Compare(a.ts))
				if ab != -ba {
					addViol("C15:compare-not-antisymmetric", fmt.Sprintf("%s vs %s: %d and %d", a.ts.ToString(), b.ts.ToString(), ab, ba), nil)
				}
				if i != j && ab == 0 {
					addViol("C15:compare-not-total", fmt.Sprintf("distinct %s and %s compare equal", a.ts.ToString(), b.ts.ToString()), nil)
				}
				if oi := sign(a.id.Compare(b.id)); oi != ab {
					addViol("C15:timestamp-vs-operation-id-order", fmt.Sprintf("%s vs %s: Timestamp %d, OperationID %d", a.ts.ToString(), b.ts.ToString(), ab, oi), nil)
				}
				// delimiter must not take part in the order
				b2 := model.NewTimestamp(b.ts.Era, b.ts.Lamport, b.ts.CUID, b.ts.Delimiter+7)
				if sign(a.ts.Compare(b2)) != ab {
					addViol("C15:delimiter-changes-order", fmt.Sprintf("%s vs %s", a.ts.ToString(), b2.ToString()), nil)
				}
			}
		}
		cmp := make([][]int8, len(pts))
		for i := range pts {
			cmp[i] = make([]int8, len(pts))
			for j := range pts {
				cmp[i][j] = int8(sign(pts[i].ts.Compare(pts[j].ts)))
			}
		}
		for i := range pts {
			for j := range pts {
				if cmp[i][j] >= 0 {
					continue
				}
				for k := range pts {
					info.Evaluations++
					if cmp[j][k] < 0 && cmp[i][k] >= 0 {
						addViol("C15:compare-not-transitive", fmt.Sprintf("%s < %s < %s but not %s < %s",
							pts[i].ts.ToString(), pts[j].ts.ToString(), pts[k].ts.ToString(), pts[i].ts.ToString(), pts[k].ts.ToString()), nil)
					}
				}
			}
		}
		nt[fmt.Sprintf("points=%d", len(pts))] = true
		info.Transitions = info.Evaluations
		for k := range nt {
			info.Nontrivial = append(info.Nontrivial, k)
		}
		info.Samples = []interface{}{
			map[string]interface{}{"timestamp": "era 0, lamport 2, cuid#0, delimiter 10", "key": model.NewTimestamp(0, 2, cuids[0], 10).Hash()},
			map[string]interface{}{"timestamp": "era 0, lamport 21, cuid#0, delimiter 0", "key": model.NewTimestamp(0, 21, cuids[0], 0).Hash()},
			map[string]interface{}{"grid": fmt.Sprintf("era 0..1 x %d lamports (0..%d + 7 boundary magnitudes) x delimiter 0..%d x 3 client ids; order axioms on %d points (all pairs, all triples)", len(lamports), p.MaxLamport, p.MaxDelim, len(pts))},
		}
		b, _ := json.Marshal(info)
		emit(pt.Line{Done: true, Info: b}, true)
	}
	jobKinds["grid-replay"] = jobKinds["grid"]
}
