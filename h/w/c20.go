package w

import (
	"encoding/json"
	"fmt"
	"sort"
	"strings"
	"sync"

	"github.com/orda-io/orda/client/pkg/model"
	"github.com/orda-io/orda/client/pkg/orda"
	"github.com/orda-io/orda/client/pkg/verifrt"
	"github.com/orda-io/orda/client/pkg/verifrt/vsync"

	"verif/h/pt"
	"verif/h/sysx"
)

// C20: several goroutines on one client datatype behave as if serialized. Scheduling points are the
// shim gates around the datatype mutex (and goroutine starts); no server is involved.

type c20Args struct {
	Type    string `json:"type"`    // counter | list
	Threads int    `json:"threads"` // 2..3 caller goroutines
	Remote  bool   `json:"remote"`  // plus one goroutine applying a remote pack
	Packer  bool   `json:"packer"`  // plus one goroutine calling CreatePushPullPack
	Stmt    bool   `json:"stmt"`    // every statement boundary of transaction.go is a scheduling point
	Many    bool   `json:"many"`    // positional scenario: the calls delete / update SEVERAL elements at once (ranges)
	Kept    bool   `json:"kept"`    // (doc) the plain calls go through a handle the application kept from the body of an earlier, finished transaction
}

func init() {
	schedScenarios["c20"] = func(args json.RawMessage) schedScenario {
		var a c20Args
		json.Unmarshal(args, &a)
		return schedScenario{name: "c20", build: func(x *schedExec) ([]activity, func() *pt.Violation, func() *pt.Violation, func()) {
			w := NewWorld(WParams{Type: a.Type, N: 2})
			r := w.reps[0]
			other := w.reps[1]
			sched := sysx.NewSched()
			x.sched = sched
			vsync.Hook = func(p string) { sched.Gate("sync." + p) }
			verifrt.GoHook = func(site string) { sched.Gate("go:" + site) }
			if a.Stmt {
				verifrt.PointHook = func(site string) {
					if strings.HasPrefix(site, "transaction.go:") { // wired.go points belong to the c20sync scenario
						sched.Gate("pt:" + site)
					}
				}
			}
			// the remote pack: two operations of the other replica
			var remotePack *model.PushPullPack
			if a.Remote {
				switch a.Type {
				case "counter":
					other.cnt.IncreaseBy(100)
					other.cnt.IncreaseBy(1000)
				case "doc":
					other.doc.PutToObject("o1", "o1")
					other.doc.PutToObject("o2", "o2")
				default:
					other.li.InsertMany(0, "o1", "o2")
				}
				ops := other.dt.CreatePushPullPack().Operations
				own := r.dt.CreatePushPullPack()
				remotePack = &model.PushPullPack{Key: e1Key, DUID: r.dt.GetDUID(), Type: w.typ, Operations: ops,
					CheckPoint: &model.CheckPoint{Sseq: own.CheckPoint.Sseq + uint64(len(ops)), Cseq: own.CheckPoint.Cseq - uint64(len(own.Operations))}}
			}
			var mu sync.Mutex
			var panics []string
			okCalls := map[string]int{} // activity -> successful calls
			var txReads []string
			var packs [][]string
			guard := func(name string, f func()) func() {
				return func() {
					defer func() {
						if p := recover(); p != nil {
							mu.Lock()
							panics = append(panics, fmt.Sprintf("%s: %v", name, p))
							mu.Unlock()
						}
					}()
					f()
				}
			}
			note := func(name string, n int) {
				mu.Lock()
				okCalls[name] += n
				mu.Unlock()
			}
			var acts []activity
			var kept orda.DocumentInTx
			if a.Kept && a.Type == "doc" {
				r.doc.Transaction("earlier", func(d orda.DocumentInTx) error {
					kept = d // bound to the context of this transaction, which ends here
					return nil
				})
			}
			call := func(name string, delta int32, tag string) func() {
				return func() {
					switch a.Type {
					case "counter":
						if _, err := r.cnt.IncreaseBy(delta); err == nil {
							note(name, int(delta))
						}
					case "doc":
						var target orda.DocumentInTx = r.doc
						if kept != nil {
							target = kept
						}
						if _, err := target.PutToObject(tag, tag); err == nil {
							note(name, 1)
						}
					default:
						if _, err := r.li.Insert(0, tag); err == nil {
							note(name, 1)
						}
					}
				}
			}
			acts = append(acts, activity{name: "t0-call", f: guard("t0", call("t0", 1, "t0a"))})
			// a transaction of two calls with reads in between
			acts = append(acts, activity{name: "t1-tx", f: guard("t1", func() {
				if a.Type == "counter" {
					err := r.cnt.Transaction("tx", func(c orda.CounterInTx) error {
						before := c.Get()
						c.IncreaseBy(10)
						mid := c.Get()
						c.IncreaseBy(10)
						after := c.Get()
						mu.Lock()
						txReads = append(txReads, fmt.Sprintf("%d,%d,%d", mid-before, after-mid, after-before))
						mu.Unlock()
						return nil
					})
					if err == nil {
						note("t1", 20)
					}
				} else if a.Type == "doc" {
					err := r.doc.Transaction("tx", func(d orda.DocumentInTx) error {
						keys := func() string {
							m, _ := d.GetValue().(map[string]interface{})
							ks := make([]string, 0, len(m))
							for k := range m {
								ks = append(ks, k)
							}
							sort.Strings(ks)
							return strings.Join(ks, ",")
						}
						before := keys()
						d.PutToObject("t1a", "t1a")
						mid := keys()
						d.PutToObject("t1b", "t1b")
						after := keys()
						mu.Lock()
						txReads = append(txReads, fmt.Sprintf("%s|%s|%s", before, mid, after))
						mu.Unlock()
						return nil
					})
					if err == nil {
						note("t1", 2)
					}
				} else {
					err := r.li.Transaction("tx", func(l orda.ListInTx) error {
						n0 := l.Size()
						l.Insert(0, "t1a")
						l.Insert(1, "t1b")
						v, _ := l.GetMany(0, 2)
						mu.Lock()
						txReads = append(txReads, fmt.Sprintf("%d,%s", l.Size()-n0, jsonStr(v)))
						mu.Unlock()
						return nil
					})
					if err == nil {
						note("t1", 2)
					}
				}
			})})
			if a.Threads >= 3 {
				acts = append(acts, activity{name: "t2-calls", f: guard("t2", func() {
					call("t2", 3, "t2a")()
					call("t2", 3, "t2b")()
				})})
			}
			if a.Remote {
				acts = append(acts, activity{name: "t3-remote", f: guard("t3", func() { r.dt.ApplyPushPullPack(remotePack) })})
			}
			if a.Packer {
				acts = append(acts, activity{name: "t4-pack", f: guard("t4", func() {
					p := r.dt.CreatePushPullPack()
					var ids []string
					for _, op := range p.Operations {
						ids = append(ids, fmt.Sprintf("%d", op.ID.Seq))
					}
					mu.Lock()
					packs = append(packs, ids)
					mu.Unlock()
				})})
			}
			base := len(r.dt.CreatePushPullPack().Operations)
			atEnd := func() *pt.Violation {
				mu.Lock()
				defer mu.Unlock()
				if len(panics) > 0 {
					return viol("C20:panic:"+firstLine(panics[0][strings.Index(panics[0], ":")+1:]), "a goroutine panicked: %v; schedule %v", panics, x.trace)
				}
				pend := r.dt.CreatePushPullPack().Operations[base:]
				// every issued operation queued exactly once, in identifier order
				var lastSeq, lastLam uint64
				if base > 0 {
					all := r.dt.CreatePushPullPack().Operations
					lastSeq = all[base-1].ID.Seq
				}
				for i, op := range pend {
					if lastSeq != 0 && op.ID.Seq != lastSeq+1 || lastSeq == 0 && i > 0 {
						return viol("C20:queue-not-in-sequence-order", "pending operation %d has seq %d after %d; schedule %v", i, op.ID.Seq, lastSeq, x.trace)
					}
					if op.ID.Lamport <= lastLam {
						return viol("C20:queue-lamport-not-increasing", "pending operation %d has lamport %d after %d; schedule %v", i, op.ID.Lamport, lastLam, x.trace)
					}
					lastSeq, lastLam = op.ID.Seq, op.ID.Lamport
				}
				wantOps := 0
				for name, n := range okCalls {
					switch {
					case name == "t1":
						wantOps += 3 // header + two operations
					case a.Type == "counter" && name == "t2":
						wantOps += 2
					case a.Type == "counter":
						wantOps++
					default:
						wantOps += n
					}
				}
				if len(pend) != wantOps {
					return viol("C20:queued-operation-count", "%d operations queued, the successful calls issued %d (%v); schedule %v", len(pend), wantOps, okCalls, x.trace)
				}
				// the transaction's unit is contiguous
				for i, op := range pend {
					if op.OpType == model.TypeOfOperation_TRANSACTION {
						if i+2 >= len(pend) || pend[i+1].OpType == model.TypeOfOperation_TRANSACTION || pend[i+2].OpType == model.TypeOfOperation_TRANSACTION {
							return viol("C20:transaction-unit-interleaved", "transaction header at %d is not followed by its two operations; schedule %v", i, x.trace)
						}
						want := map[bool]string{true: `{"Delta":10}`, false: ""}[a.Type == "counter"]
						if a.Type == "counter" && (string(pend[i+1].Body) != want || string(pend[i+2].Body) != want) {
							return viol("C20:transaction-unit-interleaved", "foreign operations inside the transaction unit: %s %s; schedule %v", pend[i+1].Body, pend[i+2].Body, x.trace)
						}
					}
				}
				// reads inside the body saw only the body's own effects
				for _, rd := range txReads {
					ok := rd == "10,10,20"
					if a.Type == "list" {
						ok = rd == `2,["t1a","t1b"]`
					}
					if a.Type == "doc" {
						// whatever the body found at its start, it then sees exactly its own two puts on top of it
						p := strings.Split(rd, "|")
						add := func(base string, ks ...string) string {
							all := append([]string{}, ks...)
							if base != "" {
								all = append(all, strings.Split(base, ",")...)
							}
							sort.Strings(all)
							return strings.Join(all, ",")
						}
						ok = len(p) == 3 && p[1] == add(p[0], "t1a") && p[2] == add(p[0], "t1a", "t1b")
					}
					if !ok {
						return viol("C20:transaction-saw-foreign-effect", "reads inside the transaction body: %s; schedule %v", rd, x.trace)
					}
				}
				x.outcome = fmt.Sprintf("calls=%v tx=%v packs=%v", okCalls, txReads, packs)
				// no update lost
				if a.Type == "counter" {
					want := int32(0)
					for _, n := range okCalls {
						want += int32(n)
					}
					if a.Remote {
						want += 1100
					}
					if got := r.cnt.Get(); got != want {
						return viol("C20:lost-update", "counter reads %d, successful calls and remote operations sum to %d (%v); schedule %v", got, want, okCalls, x.trace)
					}
				} else if a.Type == "doc" {
					m, _ := r.doc.GetValue().(map[string]interface{})
					var vals []string
					for k := range m {
						vals = append(vals, k)
					}
					sort.Strings(vals)
					var want []string
					for name, n := range okCalls {
						switch name {
						case "t0":
							want = append(want, "t0a")
						case "t1":
							want = append(want, "t1a", "t1b")
						case "t2":
							if n >= 1 {
								want = append(want, "t2a")
							}
							if n >= 2 {
								want = append(want, "t2b")
							}
						}
					}
					if a.Remote {
						want = append(want, "o1", "o2")
					}
					sort.Strings(want)
					if strings.Join(vals, ",") != strings.Join(want, ",") {
						return viol("C20:lost-update", "document holds the keys %v, the successful calls and remote operations put %v; schedule %v", vals, want, x.trace)
					}
				} else {
					var vals []string
					b, _ := json.Marshal(r.li.ToJSON())
					var l struct{ List []string }
					json.Unmarshal(b, &l)
					vals = append(vals, l.List...)
					sort.Strings(vals)
					var want []string
					for name, n := range okCalls {
						switch name {
						case "t0":
							want = append(want, "t0a")
						case "t1":
							want = append(want, "t1a", "t1b")
						case "t2":
							if n >= 1 {
								want = append(want, "t2a")
							}
							if n >= 2 {
								want = append(want, "t2b")
							}
						}
					}
					if a.Remote {
						want = append(want, "o1", "o2")
					}
					sort.Strings(want)
					if strings.Join(vals, ",") != strings.Join(want, ",") {
						return viol("C20:lost-update", "list holds %v, the successful calls and remote operations are %v; schedule %v", vals, want, x.trace)
					}
					// t1a directly before t1b (the body inserted them at 0 and 1 with nothing in between)
					for i, v := range l.List {
						if v == "t1a" && (i+1 >= len(l.List) || l.List[i+1] != "t1b") {
							if !a.Remote { // a concurrent remote insert at the head may legitimately land between them
								return viol("C20:transaction-saw-foreign-effect", "t1a is not directly followed by t1b: %v; schedule %v", l.List, x.trace)
							}
						}
					}
				}
				return nil
			}
			return acts, nil, atEnd, func() { vsync.Hook = nil; verifrt.GoHook = nil; verifrt.PointHook = nil }
		}}
	}
}
