package w

import (
	"encoding/json"
	"fmt"
	"math"
	"reflect"
	"sort"
	"strconv"
	"strings"

	"github.com/orda-io/orda/client/pkg/errors"
	"github.com/orda-io/orda/client/pkg/orda"

	"verif/h/pt"
)

// C03: on a single replica every call sequence behaves as the plain structure; invalid calls are
// inert (error, no panic, nothing readable changes, nothing queued, no identifier consumed).

// ---------------------------------------------------------------------------------------------
// reference models: an int32, a map, a slice, a JSON tree with container identities
// ---------------------------------------------------------------------------------------------

type rnode struct {
	id   int
	kind byte // 'p' primitive, 'o' object, 'a' array
	prim interface{}
	obj  map[string]*rnode
	arr  []*rnode
}

type refModel struct {
	typ    string
	cnt    int32
	mp     map[string]interface{}
	li     []interface{}
	root   *rnode
	nextID int
	stale  map[string]int // path -> container id of the first handle resolved for that path
}

func newRef(typ string) *refModel {
	m := &refModel{typ: typ, mp: map[string]interface{}{}, stale: map[string]int{}}
	m.root = &rnode{id: 0, kind: 'o', obj: map[string]*rnode{}}
	m.nextID = 1
	return m
}

func (m *refModel) clone() *refModel {
	c := &refModel{typ: m.typ, cnt: m.cnt, mp: map[string]interface{}{}, nextID: m.nextID, stale: map[string]int{}}
	for k, v := range m.mp {
		c.mp[k] = v
	}
	c.li = append([]interface{}{}, m.li...)
	c.root = cloneNode(m.root)
	for k, v := range m.stale {
		c.stale[k] = v
	}
	return c
}

func cloneNode(n *rnode) *rnode {
	c := &rnode{id: n.id, kind: n.kind, prim: n.prim}
	if n.obj != nil {
		c.obj = map[string]*rnode{}
		for k, v := range n.obj {
			c.obj[k] = cloneNode(v)
		}
	}
	for _, v := range n.arr {
		c.arr = append(c.arr, cloneNode(v))
	}
	return c
}

func (m *refModel) build(v interface{}) *rnode {
	n := &rnode{id: m.nextID}
	m.nextID++
	switch x := v.(type) {
	case map[string]interface{}:
		n.kind = 'o'
		n.obj = map[string]*rnode{}
		keys := make([]string, 0, len(x))
		for k := range x {
			keys = append(keys, k)
		}
		sort.Strings(keys)
		for _, k := range keys {
			n.obj[k] = m.build(x[k])
		}
	case []interface{}:
		n.kind = 'a'
		for _, e := range x {
			n.arr = append(n.arr, m.build(e))
		}
	default:
		// values of Go types other than the generic JSON ones (fixed-size arrays, typed slices and maps, structs, pointers)
		// are what encoding/json makes of them
		if rv := reflect.ValueOf(v); v != nil {
			switch rv.Kind() {
			case reflect.Array, reflect.Slice, reflect.Map, reflect.Struct, reflect.Ptr:
				if b, err := json.Marshal(v); err == nil {
					var g interface{}
					if json.Unmarshal(b, &g) == nil {
						switch g.(type) {
						case map[string]interface{}, []interface{}:
							m.nextID-- // the node is built by the recursive call
							return m.build(g)
						}
						n.kind = 'p'
						n.prim = g
						return n
					}
				}
			}
		}
		n.kind = 'p'
		n.prim = v
	}
	return n
}

func (n *rnode) value() interface{} {
	switch n.kind {
	case 'o':
		r := map[string]interface{}{}
		for k, v := range n.obj {
			r[k] = v.value()
		}
		return r
	case 'a':
		r := make([]interface{}, 0, len(n.arr))
		for _, v := range n.arr {
			r = append(r, v.value())
		}
		return r
	}
	return n.prim
}

func (n *rnode) find(id int) *rnode {
	if n.id == id {
		return n
	}
	for _, c := range n.obj {
		if f := c.find(id); f != nil {
			return f
		}
	}
	for _, c := range n.arr {
		if f := c.find(id); f != nil {
			return f
		}
	}
	return nil
}

// resolve mirrors Replica.resolve on the reference tree; second result: target exists / reachable.
func (m *refModel) resolve(path string, record bool) (*rnode, bool) {
	if strings.HasPrefix(path, "@") {
		id, ok := m.stale[path[1:]]
		if !ok {
			return nil, false
		}
		n := m.root.find(id)
		if n == nil {
			return &rnode{id: -1, kind: 'x'}, true // handle exists but the container is gone
		}
		return n, true
	}
	cur := m.root
	if path != "" {
		for _, seg := range strings.Split(path, "/") {
			switch cur.kind {
			case 'o':
				nx, ok := cur.obj[seg]
				if !ok {
					return nil, false
				}
				cur = nx
			case 'a':
				i, e := strconv.Atoi(seg)
				if e != nil || i < 0 || i >= len(cur.arr) {
					return nil, false
				}
				cur = cur.arr[i]
			default:
				return nil, false
			}
		}
	}
	if record {
		if _, ok := m.stale[path]; !ok {
			m.stale[path] = cur.id
		}
	}
	return cur, true
}

// containers lists the paths of all containers (and primitives, flagged) up to the given depth.
func (m *refModel) paths(maxDepth int) (objs, arrs, prims []string) {
	var walk func(n *rnode, p string, d int)
	walk = func(n *rnode, p string, d int) {
		switch n.kind {
		case 'o':
			objs = append(objs, p)
			if d >= maxDepth {
				return
			}
			keys := make([]string, 0, len(n.obj))
			for k := range n.obj {
				keys = append(keys, k)
			}
			sort.Strings(keys)
			for _, k := range keys {
				walk(n.obj[k], join(p, k), d+1)
			}
		case 'a':
			arrs = append(arrs, p)
			if d >= maxDepth {
				return
			}
			for i, c := range n.arr {
				walk(c, join(p, strconv.Itoa(i)), d+1)
			}
		default:
			prims = append(prims, p)
		}
	}
	walk(m.root, "", 0)
	return
}

func join(p, k string) string {
	if p == "" {
		return k
	}
	return p + "/" + k
}

// view renders the reference in the format of Replica.View.
func (m *refModel) view() string {
	var sb strings.Builder
	switch m.typ {
	case "counter":
		fmt.Fprintf(&sb, "get=%d json=%s", m.cnt, jsonStr(struct{ Counter int32 }{m.cnt}))
	case "map":
		fmt.Fprintf(&sb, "size=%d json=%s", len(m.mp), jsonStr(m.mp))
		for _, k := range []string{"a", "b", "c"} {
			fmt.Fprintf(&sb, " get(%s)=%s", k, jsonStr(m.mp[k]))
		}
	case "list":
		n := len(m.li)
		l := m.li
		if l == nil {
			l = []interface{}{}
		}
		fmt.Fprintf(&sb, "size=%d json=%s", n, jsonStr(struct{ List []interface{} }{l}))
		for i := 0; i < n; i++ {
			fmt.Fprintf(&sb, " get(%d)=%s/false", i, jsonStr(m.li[i]))
		}
		if n > 0 {
			fmt.Fprintf(&sb, " many=%s/false", jsonStr(m.li))
		}
	default:
		fmt.Fprintf(&sb, "json=%s reads=", jsonStr(m.root.value()))
		refReads(&sb, m.root)
	}
	return sb.String()
}

func refReads(sb *strings.Builder, n *rnode) {
	switch n.kind {
	case 'o':
		keys := make([]string, 0, len(n.obj))
		for k := range n.obj {
			keys = append(keys, k)
		}
		sort.Strings(keys)
		sb.WriteString("{")
		for _, k := range keys {
			fmt.Fprintf(sb, "%q:", k)
			refReads(sb, n.obj[k])
			sb.WriteString(",")
		}
		sb.WriteString("}")
	case 'a':
		sb.WriteString("[")
		for _, c := range n.arr {
			refReads(sb, c)
			sb.WriteString(",")
		}
		sb.WriteString("]")
	default:
		sb.WriteString(jsonStr(n.prim))
	}
}

// verdict classes
const (
	clsValid   = "valid"   // the plain structure performs it: must succeed and match
	clsInvalid = "invalid" // the plain structure cannot perform it: must fail and change nothing
	clsFree    = "free"    // the API may accept or refuse: success => match, error => unchanged
)

// refResult is what the reference expects of one call.
type refResult struct {
	cls  string
	ret  string // expected return ("*" = not compared)
	why  string
	nops int // operations the call queues when it succeeds
}

func nodesJSON(ns []*rnode) string {
	vs := make([]interface{}, 0, len(ns))
	for _, n := range ns {
		vs = append(vs, n.value())
	}
	return jsonStr(vs)
}

// applyRef performs the call on the reference if it is performable and says what to expect.
// vals are the concrete values the harness passed (already generated, in order).
func (m *refModel) applyRef(a pt.Action, vals []interface{}, commit bool) refResult {
	hasNil := false
	for _, v := range vals {
		if v == nil {
			hasNil = true
		} else if rv := reflect.ValueOf(v); rv.Kind() == reflect.Ptr && rv.IsNil() {
			hasNil = true
		} else if f, ok := v.(float64); ok && (math.IsNaN(f) || math.IsInf(f, 0)) {
			hasNil = true // JSON has no such number: refused like null
		}
	}
	switch a.Op {
	case "inc":
		m.cnt += int32(a.P)
		return refResult{cls: clsValid, ret: fmt.Sprint(m.cnt), nops: 1}
	case "put":
		if a.K == "" {
			return refResult{cls: clsInvalid, why: "empty-key"}
		}
		if hasNil {
			return refResult{cls: clsInvalid, why: "nil-value"}
		}
		old := m.mp[a.K]
		m.mp[a.K] = vals[0]
		return refResult{cls: clsValid, ret: jsonStr(old), nops: 1}
	case "rem":
		if a.K == "" {
			return refResult{cls: clsInvalid, why: "empty-key"}
		}
		old, ok := m.mp[a.K]
		if !ok {
			return refResult{cls: clsFree, ret: "null", why: "absent-key", nops: 1}
		}
		delete(m.mp, a.K)
		return refResult{cls: clsValid, ret: jsonStr(old), nops: 1}
	case "ins", "ins1":
		if a.P < 0 || a.P > len(m.li) {
			return refResult{cls: clsInvalid, why: "pos-out-of-range"}
		}
		if hasNil {
			return refResult{cls: clsInvalid, why: "nil-value"}
		}
		nl := append([]interface{}{}, m.li[:a.P]...)
		nl = append(nl, vals...)
		nl = append(nl, m.li[a.P:]...)
		m.li = nl
		return refResult{cls: clsValid, ret: jsonStr(vals), nops: 1}
	case "del", "del1":
		n := a.N
		if a.Op == "del1" {
			n = 1
		}
		if a.P < 0 || n < 1 || a.P > len(m.li) || n > len(m.li)-a.P {
			return refResult{cls: clsInvalid, why: "range-out-of-bounds"}
		}
		old := append([]interface{}{}, m.li[a.P:a.P+n]...)
		m.li = append(append([]interface{}{}, m.li[:a.P]...), m.li[a.P+n:]...)
		if a.Op == "del1" {
			return refResult{cls: clsValid, ret: jsonStr(old[0]), nops: 1}
		}
		return refResult{cls: clsValid, ret: jsonStr(old), nops: 1}
	case "upd":
		n := len(vals)
		if a.P < 0 || n < 1 || a.P+n > len(m.li) {
			return refResult{cls: clsInvalid, why: "range-out-of-bounds"}
		}
		if hasNil {
			return refResult{cls: clsInvalid, why: "nil-value"}
		}
		old := append([]interface{}{}, m.li[a.P:a.P+n]...)
		for i, v := range vals {
			m.li[a.P+i] = v
		}
		return refResult{cls: clsValid, ret: jsonStr(old), nops: 1}
	case "dput", "ddel", "dins", "dupd", "darrdel", "darrdel1":
		t, ok := m.resolve(a.T, commit)
		if !ok {
			return refResult{cls: "unaddressable"}
		}
		if t.kind == 'x' {
			return refResult{cls: clsInvalid, why: "deleted-container"}
		}
		wantObj := a.Op == "dput" || a.Op == "ddel"
		if (wantObj && t.kind != 'o') || (!wantObj && t.kind != 'a') {
			return refResult{cls: clsInvalid, why: "wrong-container-kind"}
		}
		switch a.Op {
		case "dput":
			if hasNil {
				return refResult{cls: clsInvalid, why: "nil-value"}
			}
			cls := clsValid
			if a.K == "" {
				cls = clsFree
			}
			old, had := t.obj[a.K]
			t.obj[a.K] = m.build(vals[0])
			ret := "null"
			if had {
				ret = jsonStr(old.value())
			}
			return refResult{cls: cls, ret: ret, why: "empty-key", nops: 1}
		case "ddel":
			old, had := t.obj[a.K]
			if !had {
				return refResult{cls: clsFree, ret: "null", why: "absent-key", nops: 1}
			}
			delete(t.obj, a.K)
			return refResult{cls: clsValid, ret: jsonStr(old.value()), nops: 1}
		case "dins":
			if a.P < 0 || a.P > len(t.arr) {
				return refResult{cls: clsInvalid, why: "pos-out-of-range"}
			}
			if hasNil {
				return refResult{cls: clsInvalid, why: "nil-value"}
			}
			var ns []*rnode
			for _, v := range vals {
				ns = append(ns, m.build(v))
			}
			nl := append([]*rnode{}, t.arr[:a.P]...)
			nl = append(nl, ns...)
			nl = append(nl, t.arr[a.P:]...)
			t.arr = nl
			return refResult{cls: clsValid, ret: "-", nops: 1}
		case "dupd":
			n := len(vals)
			if a.P < 0 || n < 1 || a.P > len(t.arr) || n > len(t.arr)-a.P {
				return refResult{cls: clsInvalid, why: "range-out-of-bounds"}
			}
			if hasNil {
				return refResult{cls: clsInvalid, why: "nil-value"}
			}
			old := append([]*rnode{}, t.arr[a.P:a.P+n]...)
			for i, v := range vals {
				t.arr[a.P+i] = m.build(v)
			}
			return refResult{cls: clsValid, ret: nodesJSON(old), nops: 1}
		default:
			n := a.N
			if a.Op == "darrdel1" {
				n = 1
			}
			if a.P < 0 || n < 1 || a.P > len(t.arr) || n > len(t.arr)-a.P {
				return refResult{cls: clsInvalid, why: "range-out-of-bounds"}
			}
			old := append([]*rnode{}, t.arr[a.P:a.P+n]...)
			t.arr = append(append([]*rnode{}, t.arr[:a.P]...), t.arr[a.P+n:]...)
			if a.Op == "darrdel1" {
				return refResult{cls: clsValid, ret: jsonStr(old[0].value()), nops: 1}
			}
			return refResult{cls: clsValid, ret: nodesJSON(old), nops: 1}
		}
	}
	panic("harness: applyRef: unknown op " + a.Op)
}

// ---------------------------------------------------------------------------------------------
// the machine
// ---------------------------------------------------------------------------------------------

type c03Machine struct {
	w    *World
	ref  *refModel
	last string
}

func init() {
	registry["C03"] = func(params json.RawMessage) Machine {
		var p WParams
		json.Unmarshal(params, &p)
		p.N = 1
		m := &c03Machine{w: NewWorld(p), ref: newRef(p.Type)}
		if p.Prefix == "arr4" { // non-initial start state: an array of four elements under key "a"
			m.Apply(pt.Action{Op: "dput", K: "a", V: "ea"})
			m.Apply(pt.Action{Op: "dins", T: "a", P: 0, N: 2, V: "p"})
			m.Apply(pt.Action{Op: "dins", T: "a", P: 2, N: 2, V: "p"})
		}
		if p.Prefix == "tomb" { // non-initial start state: a map with a live key and a removed one
			m.Apply(pt.Action{Op: "put", K: "a", V: "p"})
			m.Apply(pt.Action{Op: "put", K: "b", V: "p"})
			m.Apply(pt.Action{Op: "rem", K: "a"})
		}
		if p.Prefix == "nest3" { // non-initial start state: containers two levels below the root, with handles taken
			m.Apply(pt.Action{Op: "dput", K: "a", V: "n"})               // a = {o:{p,q}}
			m.Apply(pt.Action{Op: "dput", K: "b", V: "na"})              // b = {l:[..], m}
			m.Apply(pt.Action{Op: "dput", T: "a/o", K: "x", V: "p"})     // handle a/o
			m.Apply(pt.Action{Op: "dins", T: "b/l", P: 0, N: 1, V: "p"}) // handle b/l
		}
		return m
	}
}

func (m *c03Machine) Key() (string, bool) {
	k, _ := m.w.Key()
	return k, len(m.w.Pending(0)) >= 1
}
func (m *c03Machine) Outcome() string      { return m.last }
func (m *c03Machine) Close() *pt.Violation { return nil }

// c03Calls enumerates single calls (valid and invalid) for the current reference state.
func c03Calls(ref *refModel, alpha string) []pt.Action {
	var as []pt.Action
	add := func(a pt.Action) { as = append(as, a) }
	rich := alpha == "rich"
	switch ref.typ {
	case "counter":
		add(pt.Action{Op: "inc", P: 1})
		add(pt.Action{Op: "inc", P: -2})
		add(pt.Action{Op: "inc", P: math.MaxInt32})
	case "map":
		for _, k := range []string{"a", "b"} {
			add(pt.Action{Op: "put", K: k, V: "p"})
			add(pt.Action{Op: "rem", K: k})
		}
		add(pt.Action{Op: "put", K: "", V: "p"})
		add(pt.Action{Op: "put", K: "a", V: "nil"})
		add(pt.Action{Op: "put", K: "a", V: "tnil"})
		add(pt.Action{Op: "put", K: "a", V: "nan"})
		add(pt.Action{Op: "rem", K: ""})
		if rich {
			add(pt.Action{Op: "put", K: "a", V: "num"})
			add(pt.Action{Op: "rem", K: "c"})
		}
	case "list":
		n := len(ref.li)
		pos := uniq(0, n/2, n)
		for _, p := range pos {
			add(pt.Action{Op: "ins1", P: p, V: "p"})
		}
		add(pt.Action{Op: "ins", P: n, V: "p", N: 2})
		add(pt.Action{Op: "ins1", P: -1, V: "p"})
		add(pt.Action{Op: "ins1", P: n + 1, V: "p"})
		add(pt.Action{Op: "ins1", P: 0, V: "nil"})
		add(pt.Action{Op: "ins1", P: 0, V: "tnil"})
		add(pt.Action{Op: "ins1", P: 0, V: "nan"})
		for _, p := range uniq(0, n/2, n-1) {
			if p >= 0 && p < n {
				add(pt.Action{Op: "del1", P: p})
				add(pt.Action{Op: "upd", P: p, V: "p", N: 1})
			}
		}
		add(pt.Action{Op: "del1", P: n})
		add(pt.Action{Op: "del1", P: -1})
		add(pt.Action{Op: "del", P: 0, N: 2})
		add(pt.Action{Op: "del", P: 0, N: 0})
		add(pt.Action{Op: "del", P: 1, N: math.MaxInt}) // position + count wraps around
		add(pt.Action{Op: "upd", P: n, V: "p", N: 1})
		add(pt.Action{Op: "upd", P: 0, V: "nil", N: 1})
		if rich {
			add(pt.Action{Op: "ins", P: 0, V: "p", N: 2})
			add(pt.Action{Op: "upd", P: 0, V: "p", N: 2})
			add(pt.Action{Op: "del", P: n - 1, N: 2})
			add(pt.Action{Op: "upd", P: -1, V: "p", N: 1})
		}
	default:
		objs, arrs, prims := ref.paths(2)
		shapes := []string{"p", "o", "a"}
		if rich {
			shapes = []string{"p", "o", "a", "n"}
		}
		if strings.Contains(alpha, "gotypes") {
			shapes = []string{"p", "ga", "gs", "gp", "gm"}
		}
		for _, t := range objs {
			keys := []string{"a", "b"}
			if t != "" {
				keys = []string{"x"}
			}
			for _, k := range keys {
				for _, s := range shapes {
					add(pt.Action{Op: "dput", T: t, K: k, V: s})
				}
				add(pt.Action{Op: "ddel", T: t, K: k})
			}
			if t == "" || rich {
				add(pt.Action{Op: "dput", T: t, K: "a", V: "tnil"})
				add(pt.Action{Op: "dput", T: t, K: "a", V: "nil"})
				add(pt.Action{Op: "dput", T: t, K: "a", V: "nan"})
				add(pt.Action{Op: "dins", T: t, P: 0, V: "p", N: 1}) // wrong container kind
			}
			if t == "" && rich {
				add(pt.Action{Op: "dput", T: t, K: "", V: "p"})
			}
		}
		for _, t := range arrs {
			tn, _ := ref.resolve(t, false)
			n := len(tn.arr)
			add(pt.Action{Op: "dins", T: t, P: n, V: "p", N: 1})
			add(pt.Action{Op: "dins", T: t, P: 0, V: "o", N: 1})
			add(pt.Action{Op: "dins", T: t, P: n + 1, V: "p", N: 1})
			add(pt.Action{Op: "dins", T: t, P: 0, V: "nil", N: 1})
			add(pt.Action{Op: "dupd", T: t, P: 0, V: "p", N: 1})
			add(pt.Action{Op: "dupd", T: t, P: n, V: "p", N: 1})
			add(pt.Action{Op: "dupd", T: t, P: 0, V: "nil", N: 1})
			add(pt.Action{Op: "darrdel1", T: t, P: 0})
			if n >= 3 {
				add(pt.Action{Op: "darrdel1", T: t, P: n / 2})
				add(pt.Action{Op: "dupd", T: t, P: n / 2, V: "p", N: 2})
			}
			add(pt.Action{Op: "darrdel1", T: t, P: n})
			add(pt.Action{Op: "darrdel", T: t, P: 0, N: 2})
			add(pt.Action{Op: "darrdel", T: t, P: 1, N: math.MaxInt}) // position + count wraps around
			add(pt.Action{Op: "dput", T: t, K: "a", V: "p"})          // wrong container kind
			if rich {
				add(pt.Action{Op: "dins", T: t, P: -1, V: "p", N: 1})
				add(pt.Action{Op: "dupd", T: t, P: 0, V: "a", N: 1})
				add(pt.Action{Op: "darrdel", T: t, P: 0, N: 0})
			}
		}
		for i, t := range prims {
			if i < 1 || rich {
				add(pt.Action{Op: "dput", T: t, K: "a", V: "p"}) // on a primitive
			}
		}
		// stale handles: paths whose first handle no longer is the current container
		sp := make([]string, 0, len(ref.stale))
		for p := range ref.stale {
			sp = append(sp, p)
		}
		sort.Strings(sp)
		for _, p := range sp {
			if p == "" {
				continue
			}
			cur, ok := ref.resolve(p, false)
			if ok && cur.id == ref.stale[p] {
				continue
			}
			h, _ := ref.resolve("@"+p, false)
			if h == nil {
				continue
			}
			// a handle to a replaced or deleted container (or primitive)
			add(pt.Action{Op: "dput", T: "@" + p, K: "a", V: "p"})
			add(pt.Action{Op: "dins", T: "@" + p, P: 0, V: "p", N: 1})
			add(pt.Action{Op: "ddel", T: "@" + p, K: "x"})
			add(pt.Action{Op: "dupd", T: "@" + p, P: 0, V: "p", N: 1})
			add(pt.Action{Op: "darrdel1", T: "@" + p, P: 0})
		}
	}
	return as
}

func uniq(xs ...int) []int {
	seen := map[int]bool{}
	var r []int
	for _, x := range xs {
		if !seen[x] {
			seen[x] = true
			r = append(r, x)
		}
	}
	return r
}

func (m *c03Machine) Enabled() []pt.Action {
	all := c03Calls(m.ref, m.w.P.Alpha)
	as := append([]pt.Action{}, all...)
	var calls []pt.Action // handles obtained outside a transaction cannot be used inside one
	for _, c := range all {
		if !strings.HasPrefix(c.T, "@") {
			calls = append(calls, c)
		}
	}
	// transactions: a successful and a failing body over the first two calls, and one over a valid+invalid pair
	if len(calls) >= 2 {
		as = append(as, pt.Action{Op: "tx", Sub: []pt.Action{calls[0], calls[1]}})
		as = append(as, pt.Action{Op: "tx", Sub: []pt.Action{calls[0], calls[1]}, Fail: true})
		as = append(as, pt.Action{Op: "tx", Sub: []pt.Action{calls[0], calls[len(calls)-1]}})
	}
	return as
}

type preState struct {
	meta, snap, pend string
	npend            int
	view             string
}

func (m *c03Machine) pre() preState {
	r := m.w.reps[0]
	meta, snap := r.Export()
	p := m.w.Pending(0)
	return preState{meta: meta, snap: snap, pend: opsDigest(p), npend: len(p), view: r.View()}
}

// peekValues generates the values the call will use without consuming tags (the call regenerates them).
func (m *c03Machine) peekValues(a pt.Action) []interface{} {
	r := m.w.reps[0]
	save := r.nloc
	defer func() { r.nloc = save }()
	switch a.Op {
	case "put", "ins1", "dput":
		return []interface{}{r.value(a.V)}
	case "ins", "upd", "dins", "dupd":
		return r.values(a.V, a.N)
	}
	return nil
}

func callName(a pt.Action) string {
	return map[string]string{"inc": "Counter.IncreaseBy", "put": "Map.Put", "rem": "Map.Remove", "ins": "List.InsertMany",
		"ins1": "List.Insert", "del1": "List.Delete", "del": "List.DeleteMany", "upd": "List.Update",
		"dput": "Document.PutToObject", "ddel": "Document.DeleteInObject", "dins": "Document.InsertToArray",
		"dupd": "Document.UpdateManyInArray", "darrdel": "Document.DeleteManyInArray", "darrdel1": "Document.DeleteInArray",
		"tx": "Transaction"}[a.Op]
}

// checkCall compares one executed call with the reference expectation.
func checkCall(a pt.Action, out StepOut, exp refResult) *pt.Violation {
	name := callName(a)
	if exp.cls == "unaddressable" {
		if !out.Inval {
			return viol("C03:harness:addressing", "reference cannot address %s but implementation could", a)
		}
		return nil
	}
	if out.Inval {
		return viol("C03:unreadable-path:"+name, "implementation cannot reach target %q that exists in the plain structure (%s)", a.T, a)
	}
	if out.Panic != "" {
		return viol(fmt.Sprintf("C03:panic:%s:%s:%s", name, exp.cls, exp.why), "%s panicked (%s call, %s): %s", a, exp.cls, exp.why, out.Panic)
	}
	switch exp.cls {
	case clsInvalid:
		if out.Err == "" {
			return viol(fmt.Sprintf("C03:accepted-invalid:%s:%s", name, exp.why), "%s must be refused (%s) but returned success ret=%s", a, exp.why, out.Ret)
		}
	case clsValid:
		if out.Err != "" {
			return viol(fmt.Sprintf("C03:refused-valid:%s", name), "%s is valid on the plain structure but returned error %s", a, out.Err)
		}
		if exp.ret != "*" && canonJSON(out.Ret) != canonJSON(exp.ret) {
			return viol(fmt.Sprintf("C03:wrong-return:%s", name), "%s returned %s, plain structure gives %s", a, out.Ret, exp.ret)
		}
	case clsFree:
		if out.Err == "" && exp.ret != "*" && canonJSON(out.Ret) != canonJSON(exp.ret) {
			return viol(fmt.Sprintf("C03:wrong-return:%s", name), "%s returned %s, plain structure gives %s", a, out.Ret, exp.ret)
		}
	}
	return nil
}

func (m *c03Machine) Apply(a pt.Action) *pt.Violation {
	r := m.w.reps[0]
	before := m.pre()
	if before.view != m.ref.view() {
		return viol("C03:harness:pre-view", "pre-state view differs from reference before %s:\n impl %s\n ref  %s", a, before.view, m.ref.view())
	}
	wantOps := 0
	changed := false // whether the reference changed
	var v *pt.Violation
	if a.Op != "tx" {
		vals := m.peekValues(a)
		out := m.w.Step(a)
		shadow := m.ref.clone()
		exp := shadow.applyRef(a, vals, true)
		v = checkCall(a, out, exp)
		if v == nil && exp.cls != "unaddressable" && out.Err == "" {
			m.ref = shadow
			wantOps = exp.nops
			changed = true
		} else if exp.cls != "unaddressable" {
			m.ref.stale = shadow.stale
		}
		m.last = fmt.Sprintf("%s/%s/%s", exp.cls, out.Err, out.Ret)
		if out.Panic != "" {
			return v
		}
	} else {
		save := r.nloc
		out := m.w.Step(a)
		if out.Panic != "" {
			return viol("C03:panic:Transaction:"+firstLine(out.Panic), "%s panicked: %s", a, out.Panic)
		}
		var subs []StepOut
		json.Unmarshal([]byte(out.Ret), &subs)
		if len(subs) != len(a.Sub) {
			return viol("C03:tx-body-incomplete", "%s ran %d of %d calls", a, len(subs), len(a.Sub))
		}
		// run the reference, following the implementation's verdict on free calls
		shadow := m.ref.clone()
		r2 := save
		nops := 0
		for i, s := range a.Sub {
			var vals []interface{}
			addressable := true
			if strings.HasPrefix(s.Op, "d") && s.Op != "del" && s.Op != "del1" {
				_, addressable = shadow.resolve(s.T, false)
			}
			if addressable {
				cur := r.nloc
				r.nloc = r2
				switch s.Op {
				case "put", "ins1", "dput":
					vals = []interface{}{r.value(s.V)}
				case "ins", "upd", "dins", "dupd":
					vals = r.values(s.V, s.N)
				}
				r2 = r.nloc
				r.nloc = cur
			}
			probe := shadow.clone()
			e := probe.applyRef(s, vals, false)
			if subs[i].Err == "unresolvable" {
				subs[i].Inval = true
			}
			if v = checkCall(s, subs[i], e); v != nil {
				v.Sig += ":in-tx"
				break
			}
			if e.cls != "unaddressable" && subs[i].Err == "" {
				shadow = probe
				nops += e.nops
			}
		}
		if v == nil {
			if a.Fail {
				if out.Err == "" {
					return viol("C03:tx-fail-not-reported", "%s: failing body but Transaction returned nil", a)
				}
			} else {
				if out.Err != "" {
					return viol("C03:tx-refused", "%s: body succeeded but Transaction returned %s", a, out.Err)
				}
				m.ref = shadow
				wantOps = nops + 1
				changed = true
			}
		}
		m.last = fmt.Sprintf("tx/%s/%s", out.Err, out.Ret)
	}
	if v != nil {
		return v
	}
	after := m.pre()
	if !changed {
		// an inert call: nothing readable changes, nothing queued, identifiers untouched
		if after.view != before.view {
			return viol("C03:refused-call-changed-view:"+callName(a), "%s failed but view changed:\n before %s\n after  %s", a, before.view, after.view)
		}
		if after.pend != before.pend {
			return viol("C03:refused-call-queued-ops:"+callName(a), "%s failed but pending operations changed (%d -> %d)", a, before.npend, after.npend)
		}
		if after.meta != before.meta {
			return viol("C03:refused-call-consumed-id:"+callName(a), "%s failed but identifier state changed: %s -> %s", a, before.meta, after.meta)
		}
	} else {
		if got := after.npend - before.npend; got != wantOps {
			return viol("C03:queued-op-count:"+callName(a), "%s queued %d operations, expected %d", a, got, wantOps)
		}
	}
	if after.view != m.ref.view() {
		return viol("C03:state-differs:"+m.w.P.Type+":"+callName(a), "after %s:\n impl %s\n ref  %s", a, after.view, m.ref.view())
	}
	// pending operations are numbered 1..n
	for i, op := range m.w.Pending(0) {
		if op.ID.Seq != uint64(m.w.reps[0].pushed+i+1) {
			return viol("C03:pending-seq-gap", "pending operation %d has seq %d after %s", i, op.ID.Seq, a)
		}
	}
	// read calls with invalid arguments, in the state reached: refused with an error, no panic, nothing changes
	if bad := invalidReads(r); len(bad) > 0 {
		return viol("C03:invalid-read:"+bad[0].sig, "after %s: %s (and %d more)", a, bad[0].msg, len(bad)-1)
	}
	if again := m.pre(); again != after {
		return viol("C03:invalid-read-changed-state", "after %s the refused read calls changed the replica:\n before %+v\n after  %+v", a, after, again)
	}
	return nil
}

type badRead struct{ sig, msg string }

// invalidReads calls, on the replica as it stands, every read of the public API with arguments that do not address
// anything (index out of range or negative, a count reaching past the end or not positive, a path through a primitive,
// past the end of an array or into a missing member, a getter of the wrong container kind): each must return an error -
// not panic, not hand out a value.
func invalidReads(r *Replica) []badRead {
	var bad []badRead
	try := func(kind, desc string, f func() (interface{}, error)) {
		defer func() {
			if p := recover(); p != nil {
				bad = append(bad, badRead{"panics:" + kind, fmt.Sprintf("%s panicked: %v", desc, p)})
			}
		}()
		got, err := f()
		if err == nil {
			bad = append(bad, badRead{"not-refused:" + kind, fmt.Sprintf("%s returned %s and no error", desc, jsonStr(got))})
		}
	}
	isNil := func(e errors.OrdaError) error {
		if e == nil {
			return nil
		}
		return e
	}
	switch {
	case r.li != nil:
		n := r.li.Size()
		for _, pos := range []int{-1, n, n + 3} {
			pos := pos
			try("List.Get", fmt.Sprintf("List.Get(%d) on %d elements", pos, n), func() (interface{}, error) { v, e := r.li.Get(pos); return v, isNil(e) })
			try("List.GetMany", fmt.Sprintf("List.GetMany(%d, 1) on %d elements", pos, n), func() (interface{}, error) { v, e := r.li.GetMany(pos, 1); return v, isNil(e) })
		}
		try("List.GetMany", fmt.Sprintf("List.GetMany(0, %d) on %d elements", n+1, n), func() (interface{}, error) { v, e := r.li.GetMany(0, n+1); return v, isNil(e) })
		try("List.GetMany", "List.GetMany(0, 0)", func() (interface{}, error) { v, e := r.li.GetMany(0, 0); return v, isNil(e) })
		try("List.GetMany", "List.GetMany(0, -1)", func() (interface{}, error) { v, e := r.li.GetMany(0, -1); return v, isNil(e) })
		try("List.GetMany", fmt.Sprintf("List.GetMany(1, MaxInt) on %d elements", n), func() (interface{}, error) { v, e := r.li.GetMany(1, math.MaxInt); return v, isNil(e) })
	case r.doc != nil:
		val := func(d orda.Document) interface{} {
			if d == nil {
				return nil
			}
			return d.GetValue()
		}
		var walk func(d orda.Document, path string, pathOK bool, depth int)
		walk = func(d orda.Document, path string, pathOK bool, depth int) {
			if d == nil || depth > 12 {
				return
			}
			byPath := func(seg string) {
				if !pathOK {
					return
				}
				p := path + "/" + seg
				try("Document.GetByPath", fmt.Sprintf("GetByPath(%q) (%q is %v)", p, path, d.GetTypeOfJSON()), func() (interface{}, error) {
					x, e := r.doc.GetByPath(p)
					return val(x), isNil(e)
				})
			}
			switch d.GetTypeOfJSON() {
			case orda.TypeJSONObject:
				m, _ := d.GetValue().(map[string]interface{})
				byPath("no-such-member")
				byPath("0")
				try("Document.GetFromArray", fmt.Sprintf("GetFromArray(0) on the object at %q", path), func() (interface{}, error) { x, e := d.GetFromArray(0); return val(x), isNil(e) })
				try("Document.GetManyFromArray", fmt.Sprintf("GetManyFromArray(0, 1) on the object at %q", path), func() (interface{}, error) { x, e := d.GetManyFromArray(0, 1); return len(x), isNil(e) })
				for k := range m {
					if c, err := d.GetFromObject(k); err == nil && c != nil {
						walk(c, path+"/"+k, pathOK && k != "" && !strings.ContainsAny(k, "/~"), depth+1)
					}
				}
			case orda.TypeJSONArray:
				a, _ := d.GetValue().([]interface{})
				n := len(a)
				for _, pos := range []int{-1, n, n + 3} {
					pos := pos
					byPath(strconv.Itoa(pos))
					try("Document.GetFromArray", fmt.Sprintf("GetFromArray(%d) on the %d elements at %q", pos, n, path), func() (interface{}, error) { x, e := d.GetFromArray(pos); return val(x), isNil(e) })
					try("Document.GetManyFromArray", fmt.Sprintf("GetManyFromArray(%d, 1) on the %d elements at %q", pos, n, path), func() (interface{}, error) { x, e := d.GetManyFromArray(pos, 1); return len(x), isNil(e) })
				}
				byPath("x")
				try("Document.GetManyFromArray", fmt.Sprintf("GetManyFromArray(0, %d) on the %d elements at %q", n+1, n, path), func() (interface{}, error) { x, e := d.GetManyFromArray(0, n+1); return len(x), isNil(e) })
				try("Document.GetManyFromArray", fmt.Sprintf("GetManyFromArray(1, MaxInt) on the %d elements at %q", n, path), func() (interface{}, error) { x, e := d.GetManyFromArray(1, math.MaxInt); return len(x), isNil(e) })
				try("Document.GetManyFromArray", fmt.Sprintf("GetManyFromArray(0, 0) at %q", path), func() (interface{}, error) { x, e := d.GetManyFromArray(0, 0); return len(x), isNil(e) })
				try("Document.GetFromObject", fmt.Sprintf("GetFromObject(\"a\") on the array at %q", path), func() (interface{}, error) { x, e := d.GetFromObject("a"); return val(x), isNil(e) })
				for i := 0; i < n; i++ {
					if c, err := d.GetFromArray(i); err == nil && c != nil {
						walk(c, path+"/"+strconv.Itoa(i), pathOK, depth+1)
					}
				}
			default:
				byPath("a")
				byPath("0")
				try("Document.GetFromObject", fmt.Sprintf("GetFromObject(\"a\") on the primitive at %q", path), func() (interface{}, error) { x, e := d.GetFromObject("a"); return val(x), isNil(e) })
				try("Document.GetFromArray", fmt.Sprintf("GetFromArray(0) on the primitive at %q", path), func() (interface{}, error) { x, e := d.GetFromArray(0); return val(x), isNil(e) })
			}
		}
		walk(r.doc, "", true, 0)
		// the root has no parent: asking for it gives nothing, or at least nothing that panics when used
		func() {
			defer func() {
				if p := recover(); p != nil {
					bad = append(bad, badRead{"panics:Document.GetParentDocument", fmt.Sprintf("the handle returned by GetParentDocument() of the root panicked when used: %v", p)})
				}
			}()
			if pd := r.doc.GetParentDocument(); pd != nil {
				pd.GetTypeOfJSON()
				pd.GetValue()
				pd.GetFromObject("a")
			}
		}()
	}
	return bad
}
