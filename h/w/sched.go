package w

import (
	"encoding/json"
	"fmt"
	"runtime"
	"runtime/debug"
	"sort"
	"strings"
	"sync"
	"testing"
	"testing/synctest"
	"time"

	"verif/h/pt"
	"verif/h/sysx"
)

// Stateless schedule search with replay (DESIGN.md §3.5): every execution runs in a fresh bubble;
// a decision point is a quiescent moment (synctest.Wait) with the set of parked gates as menu;
// default choice = keep running the activity that ran last, else the first in canonical order;
// a deviation is choosing otherwise while the default is enabled, or an environment event.

type schedPoint struct {
	Enabled []string `json:"enabled"`
	Chosen  int      `json:"chosen"`
	RunOK   bool     `json:"run_ok"` // the activity that ran last is enabled (index 0)
}

// schedExec is one execution under the controlled scheduler.
type schedExec struct {
	sched   *sysx.Sched
	points  []schedPoint
	trace   []string
	mu      sync.Mutex
	started map[string]bool
	done    map[string]bool
	lastRan string
	hang    string
	outcome string // set by the scenario's end oracle: what this execution observably did
	policy  schedPolicy
	// callers in the middle of a call that may give up (context cancelled mid-call), and how many such events remain
	inflight func() []string
	giveUp   func(name string)
	giveUps  int
}

const envGiveUp = "~env:caller-gives-up:"

// schedPolicy selects the DEFAULT schedule around which deviations are counted (the menu at every point is the same;
// only its canonical order changes, and with it which schedules lie within the deviation bound). The zero policy is
// "continue what ran last, else first name". FastNotify puts parked notification deliveries first (a fast broker);
// SlowRPC names client stubs whose request and response gates come last (a client on a slow network: its requests
// reach the server late and its answers come back late).
type schedPolicy struct {
	FastNotify bool     `json:"fast_notify,omitempty"`
	SlowRPC    []string `json:"slow_rpc,omitempty"`
	// EagerSpawn lets a goroutine that has just been started run before its parent continues (the default lets the
	// parent run on until it blocks or ends)
	EagerSpawn bool `json:"eager_spawn,omitempty"`
}

func (p schedPolicy) class(name, label string) int {
	if p.FastNotify && strings.HasPrefix(name, "deliver:") {
		return 0
	}
	if p.EagerSpawn && strings.HasPrefix(label, "go:") {
		return 0
	}
	for _, c := range p.SlowRPC {
		if label == "rpc.request:pushpull:"+c || label == "rpc.response:pushpull:"+c {
			return 2
		}
	}
	return 1
}

// activity is a harness-started goroutine.
type activity struct {
	name string
	f    func()
}

const envExpire = "~env:lock-lease-expires"

// spawn starts the activities parked at their first gate.
func (x *schedExec) spawn(acts []activity) {
	for _, a := range acts {
		a := a
		x.mu.Lock()
		x.started[a.name] = true
		x.mu.Unlock()
		go func() {
			x.sched.Register(a.name)
			x.sched.Gate("start:" + a.name)
			a.f()
			x.mu.Lock()
			x.done[a.name] = true
			x.mu.Unlock()
		}()
	}
}

func (x *schedExec) allDone() bool {
	x.mu.Lock()
	defer x.mu.Unlock()
	for n := range x.started {
		if !x.done[n] {
			return false
		}
	}
	return true
}

// drive runs the scheduler loop until quiescence, following prefix and then default choices.
// atPoint, if non-nil, is evaluated at every decision point (invariants on every state).
func (x *schedExec) drive(prefix []int, maxPoints int, atPoint func() *pt.Violation) *pt.Violation {
	idle := 0
	for step := 0; ; step++ {
		synctest.Wait()
		if atPoint != nil {
			if v := atPoint(); v != nil {
				return v
			}
		}
		menu := x.sched.Menu()
		names := make([]string, 0, len(menu)+1)
		var first, last []string
		for _, p := range menu {
			switch x.policy.class(p.Activity, p.Label) {
			case 0:
				first = append(first, p.Activity)
			case 2:
				last = append(last, p.Activity)
			default:
				names = append(names, p.Activity)
			}
		}
		// canonical order: the continuation of what ran last first, then ascending names. An activity
		// and the goroutines it spawned form one family; the continuation is the activity that ran last
		// if it is enabled, else its closest enabled relative (a parent resuming after its child, a child
		// spawned by it): switching away from the family while a member is enabled is a preemption.
		sort.Strings(names)
		runOK := false
		best, bestScore := -1, -1
		for i, n := range names {
			sc := relScore(x.lastRan, n)
			if sc > bestScore {
				best, bestScore = i, sc
			}
		}
		if best >= 0 && bestScore > 0 {
			n := names[best]
			copy(names[1:best+1], names[0:best])
			names[0] = n
			runOK = true
		}
		if len(first) > 0 || len(last) > 0 {
			sort.Strings(first)
			sort.Strings(last)
			if len(first) > 0 {
				runOK = true
			}
			names = append(append(first, names...), last...)
		}
		blocked := !x.allDone() && x.hasBlocked(names)
		if blocked {
			names = append(names, envExpire)
		}
		if x.giveUps > 0 && x.inflight != nil {
			for _, c := range x.inflight() {
				names = append(names, envGiveUp+c)
			}
		}
		if len(names) == 0 {
			if x.allDone() {
				// let background work that only waits for time (none expected) settle, then stop
				return nil
			}
			idle++
			if idle > 3 {
				x.hang = "activities neither finished nor parked nor blocked on a timer"
				return viol("C12:hang:no-progress", "no activity can make progress: %s; trace: %v", x.status(), x.trace)
			}
			time.Sleep(20 * time.Second)
			continue
		}
		if len(names) == 1 && names[0] == envExpire {
			// only the environment can move: the lease expires. Without an earlier event of the environment (a lease that ran
			// out while its holder was parked, a caller that gave up) nothing but the requests themselves can have produced
			// this: they wait for each other, and only the lease timeout gets them out of it (with refusals)
			envBefore := false
			for _, t := range x.trace {
				if strings.HasPrefix(t, "~env:") {
					envBefore = true
				}
			}
			if !envBefore {
				return viol("hang:activities-wait-for-each-other", "every unfinished activity waits for a lock and nothing else can run: they block each other (only a lock lease running out could end it): %s; trace: %v", x.status(), x.trace)
			}
			idle++
			if idle > 4 {
				return viol("C12:hang:blocked-for-ever", "activities stay blocked although every lease expired: %s; trace: %v", x.status(), x.trace)
			}
		} else {
			idle = 0
		}
		if len(x.points) >= maxPoints {
			return viol("E2:harness:schedule-too-long", "more than %d decision points", maxPoints)
		}
		choice := 0
		if step < len(prefix) {
			choice = prefix[step]
			if choice >= len(names) {
				return viol("E2:harness:replay-diverged", "replayed choice %d at point %d but only %v are enabled (trace %v)", choice, step, names, x.trace)
			}
		}
		x.points = append(x.points, schedPoint{Enabled: names, Chosen: choice, RunOK: runOK})
		pick := names[choice]
		if step < len(prefix) && step < len(expectNames) && expectNames[step] != pick {
			return viol("E2:harness:replay-diverged", "replaying point %d picked %q, the recorded schedule had %q; enabled now %v; trace so far %v", step, pick, expectNames[step], names, x.trace)
		}
		x.trace = append(x.trace, pick)
		if pick == envExpire {
			time.Sleep(5100 * time.Millisecond)
			continue
		}
		if strings.HasPrefix(pick, envGiveUp) {
			x.giveUps--
			x.giveUp(strings.TrimPrefix(pick, envGiveUp))
			continue
		}
		x.lastRan = pick
		x.sched.Release(pick)
	}
}

// hasBlocked: some started activity is neither done nor parked (so it waits for a lock or a timer).
func (x *schedExec) hasBlocked(parked []string) bool {
	x.mu.Lock()
	defer x.mu.Unlock()
	in := map[string]bool{}
	for _, p := range parked {
		in[p] = true
		// a parked child keeps its ancestors waiting: they are not blocked on a lock
	}
	for n := range x.started {
		if x.done[n] || in[n] {
			continue
		}
		waitingForChild := false
		for _, p := range parked {
			if strings.HasPrefix(p, n+"/") {
				waitingForChild = true
			}
		}
		if !waitingForChild {
			return true
		}
	}
	return false
}

func (x *schedExec) status() string {
	x.mu.Lock()
	defer x.mu.Unlock()
	var st []string
	for n := range x.started {
		st = append(st, fmt.Sprintf("%s:done=%v", n, x.done[n]))
	}
	sort.Strings(st)
	return strings.Join(st, " ")
}

// schedScenario is a concurrency scenario: build returns the activities and the end-of-execution oracle.
type schedScenario struct {
	name string
	// prepare, if set, runs once per job outside any bubble (reference executions of the same requests one at a time)
	prepare func(t *testing.T)
	build   func(x *schedExec) (acts []activity, atPoint func() *pt.Violation, atEnd func() *pt.Violation, shutdown func())
}

var schedScenarios = map[string]func(params json.RawMessage) schedScenario{}

type schedParams struct {
	Scenario  string          `json:"scenario"`
	Bound     int             `json:"bound"`
	MaxExec   int             `json:"max_exec"`
	MaxPoints int             `json:"max_points"`
	Args      json.RawMessage `json:"args"`
}

type schedResult struct {
	labels []string
	points []schedPoint
	trace  []string
	viol   *pt.Violation
	out    string
}

// runSchedule executes one schedule (prefix + default choices) in a fresh bubble.
// expectNames, if set, are the activity names the replayed prefix must pick (divergence = hard error).
var expectNames []string

// divergeLog, if set (VERIF_DIVERGE_LOG), receives the message of every replay divergence (debugging aid).
var divergeLog func(string)
var lastDivergeMsg string

func runSchedule(t *testing.T, sc schedScenario, prefix []int, maxPoints int) (res schedResult) {
	defer func() {
		// a violation that says "these goroutines stay blocked" leaves them blocked when the bubble ends, which synctest
		// reports by panicking: the violation found is the report to keep
		if r := recover(); r != nil {
			if res.viol != nil && strings.Contains(fmt.Sprint(r), "blocked goroutines remain") {
				return
			}
			panic(r)
		}
	}()
	synctest.Test(t, func(t *testing.T) {
		resetUIDs()
		x := &schedExec{started: map[string]bool{}, done: map[string]bool{}}
		acts, atPoint, atEnd, shutdown := sc.build(x)
		defer shutdown()
		if x.sched == nil {
			res.viol = viol("E2:harness:no-scheduler", "scenario did not install a scheduler")
			return
		}
		x.sched.Exempt()
		x.sched.On = true
		x.spawn(acts)
		v := x.drive(prefix, maxPoints, atPoint)
		x.sched.On = false
		x.sched.ReleaseAll()
		synctest.Wait()
		res.points, res.trace = x.points, x.trace
		res.labels = append([]string{}, x.sched.Trace...)
		if v != nil {
			res.viol = v
			return
		}
		if atEnd != nil {
			res.viol = atEnd()
		}
		res.out = x.outcome
	})
	return
}

func costOf(points []schedPoint, upto int) int {
	c := 0
	for i := 0; i < upto; i++ {
		p := points[i]
		if p.Chosen != 0 { // every non-default choice is a deviation
			c++
		}
	}
	return c
}

func init() {
	jobKinds["sched"] = func(job *pt.Job, emit func(pt.Line, bool)) {
		var p schedParams
		json.Unmarshal(job.Params, &p)
		var ex struct {
			BudgetS float64 `json:"budget_s"`
		}
		json.Unmarshal(job.Extra, &ex)
		deadline := time.Now().Add(time.Duration(ex.BudgetS * float64(time.Second)))
		if p.MaxPoints == 0 {
			p.MaxPoints = 400
		}
		mk, ok := schedScenarios[p.Scenario]
		if !ok {
			emit(pt.Line{Err: "unknown scenario " + p.Scenario}, true)
			return
		}
		sc := mk(p.Args)
		if sc.prepare != nil {
			sc.prepare(curT)
		}
		info := pt.ShardInfo{Exhaustive: true}
		outcomes := map[string]bool{}
		traces := map[string]bool{}
		nviol := 0
		diverged := 0
		capSoft := false
		// explore returns false when the prefix could not be replayed to the activity names its parent recorded
		// (the parent decides what that means: see the perturbation handling below).
		var explore func(prefix []int, depth int) bool
		execs := 0
		run1 := func(prefix []int) schedResult {
			execs++
			// journal: the schedule about to run (a worker that dies inside it - a panic in a server goroutine, a
			// goroutine left blocked for ever - is turned into a violation with this schedule as replay)
			jb, _ := json.Marshal(map[string]interface{}{"scenario": p.Scenario, "args": p.Args, "choices": append([]int{}, prefix...)})
			emit(pt.Line{I: -2, Info: jb}, true)
			if execs%32 == 0 {
				runtime.GC() // collections happen between executions only (SetGCPercent(-1) above): a collection inside
				// an execution re-queues the running goroutine behind the ones it woke and changes the interleaving
			}
			return runSchedule(curT, sc, prefix, p.MaxPoints)
		}
		noteDiverged := func(msg string) {
			diverged++
			info.Exhaustive = false
			info.Cap = fmt.Sprintf("%d schedule prefixes could not be replayed deterministically and were skipped", diverged)
			capSoft = true
			if divergeLog != nil {
				divergeLog(msg)
			}
		}
		explore = func(prefix []int, depth int) bool {
			if !info.Exhaustive && info.Cap != "" && !capSoft {
				return true
			}
			if time.Now().After(deadline) {
				info.Exhaustive, info.Cap = false, "time budget"
				return true
			}
			if p.MaxExec > 0 && info.Evaluations >= p.MaxExec {
				info.Exhaustive, info.Cap = false, fmt.Sprintf("execution cap %d", p.MaxExec)
				return true
			}
			r := run1(prefix)
			for retry := 0; retry < 3 && r.viol != nil && r.viol.Sig == "E2:harness:replay-diverged"; retry++ {
				r = run1(prefix)
			}
			if r.viol != nil && r.viol.Sig == "E2:harness:replay-diverged" {
				lastDivergeMsg = r.viol.Msg
				return false
			}
			info.Evaluations++
			info.Transitions += len(r.points)
			tk := strings.Join(r.trace, ">")
			if !traces[tk] {
				traces[tk] = true
				info.States++
			}
			if r.out != "" && len(outcomes) < 5000 {
				outcomes[r.out] = true
			}
			if len(info.Samples) < 2 {
				info.Samples = append(info.Samples, map[string]interface{}{"schedule": r.trace, "choices": choicesOf(r.points)})
			}
			if r.viol != nil {
				// a failure is only believed if the same schedule fails the same way again (twice)
				same := true
				for k := 0; k < 2 && same; k++ {
					save := expectNames
					expectNames = nil
					r2 := run1(choicesOf(r.points))
					expectNames = save
					if r2.viol == nil || r2.viol.Sig != r.viol.Sig {
						same = false
					}
				}
				if !same {
					diverged++
					info.Exhaustive = false
					info.Cap = fmt.Sprintf("%d schedules behaved differently when replayed (nondeterminism the scheduler does not own) and were not counted", diverged)
					capSoft = true
					return true
				}
				nviol++
				if nviol <= 5 {
					eb, _ := json.Marshal(map[string]interface{}{"scenario": p.Scenario, "args": p.Args, "choices": choicesOf(r.points), "trace": r.trace})
					info.Violations = append(info.Violations, pt.ShardViol{Viol: *r.viol, Extra: eb})
				}
				return true // do not explore below a failing execution
			}
			// children. A child that cannot be replayed to the names recorded here means one of two things: this
			// execution itself was perturbed (the runtime pre-empted a goroutine between two gates: rare, load
			// dependent) - then re-running the prefix gives a different trace and the children are enumerated again
			// from the fresh execution; or the child is really nondeterministic - then it is skipped and counted.
			done := map[string]bool{}
			for attempt := 0; attempt < 4; attempt++ {
				perturbedAt := ""
				ord := 0
			children:
				for i := len(prefix); i < len(r.points); i++ {
					pt0 := r.points[i]
					base := costOf(r.points, i)
					for alt := 1; alt < len(pt0.Enabled); alt++ {
						if base+1 > p.Bound {
							continue
						}
						if depth == 0 {
							ord++
							if job.Shards > 1 && ord%job.Shards != job.Shard {
								continue
							}
						}
						key := strings.Join(r.trace[:i], ">") + ">>" + pt0.Enabled[alt]
						if done[key] {
							continue
						}
						np := append(append([]int{}, choicesOf(r.points)[:i]...), alt)
						save := expectNames
						expectNames = append(append([]string{}, r.trace[:i]...), pt0.Enabled[alt])
						ok := explore(np, depth+1)
						expectNames = save
						if !ok {
							perturbedAt = key
							break children
						}
						done[key] = true
					}
				}
				if perturbedAt == "" {
					break
				}
				r2 := run1(prefix)
				for retry := 0; retry < 3 && r2.viol != nil && r2.viol.Sig == "E2:harness:replay-diverged"; retry++ {
					r2 = run1(prefix)
				}
				if r2.viol != nil && r2.viol.Sig == "E2:harness:replay-diverged" || strings.Join(r2.trace, ">") == strings.Join(r.trace, ">") || attempt == 3 {
					// this execution is reproducible: the child is not
					noteDiverged(lastDivergeMsg)
					done[perturbedAt] = true
					continue
				}
				r = r2 // this execution had been perturbed: enumerate again from the fresh one
			}
			return true
		}
		debug.SetGCPercent(-1)
		debug.SetMemoryLimit(3 << 30)
		if !explore(nil, 0) {
			noteDiverged(lastDivergeMsg)
		}
		debug.SetGCPercent(100)
		for k := range traces {
			if len(info.Nontrivial) < 20000 {
				info.Nontrivial = append(info.Nontrivial, k)
			}
		}
		for k := range outcomes {
			info.Outcomes = append(info.Outcomes, k)
		}
		b, _ := json.Marshal(info)
		emit(pt.Line{Done: true, Info: b}, true)
	}
	jobKinds["sched-replay"] = func(job *pt.Job, emit func(pt.Line, bool)) {
		var ex struct {
			Scenario string          `json:"scenario"`
			Args     json.RawMessage `json:"args"`
			Choices  []int           `json:"choices"`
		}
		json.Unmarshal(job.Extra, &ex)
		mk, ok := schedScenarios[ex.Scenario]
		if !ok {
			emit(pt.Line{Err: "unknown scenario " + ex.Scenario}, true)
			return
		}
		rsc := mk(ex.Args)
		if rsc.prepare != nil {
			rsc.prepare(curT)
		}
		r := runSchedule(curT, rsc, ex.Choices, 1000)
		steps := r.trace
		if len(r.labels) > 0 {
			steps = r.labels
		}
		b, _ := json.Marshal(ReplayInfo{Steps: steps, Viol: r.viol})
		emit(pt.Line{Done: true, Info: b}, true)
	}
}

func choicesOf(ps []schedPoint) []int {
	out := make([]int, len(ps))
	for i, p := range ps {
		out[i] = p.Chosen
	}
	return out
}

// relScore rates how closely activity n continues activity last: 3 = the same, 2 = an ancestor or a
// descendant, 1 = another member of the same family, 0 = unrelated.
func relScore(last, n string) int {
	if last == "" {
		return 0
	}
	if last == n {
		return 3
	}
	if strings.HasPrefix(last, n+"/") || strings.HasPrefix(n, last+"/") {
		return 2
	}
	root := func(s string) string {
		if i := strings.IndexByte(s, '/'); i >= 0 {
			return s[:i]
		}
		return s
	}
	if root(last) == root(n) {
		return 1
	}
	return 0
}
