package w

import (
	gocontext "context"
	"crypto/sha256"
	"encoding/hex"
	"encoding/json"
	"fmt"
	"sort"
	"strings"
	"testing/synctest"
	"time"

	"github.com/orda-io/orda/client/pkg/iface"
	"github.com/orda-io/orda/client/pkg/model"
	"github.com/orda-io/orda/client/pkg/orda"
	"github.com/orda-io/orda/server/schema"
	"github.com/orda-io/orda/server/snapshot"
	"go.mongodb.org/mongo-driver/bson"
	"go.mongodb.org/mongo-driver/bson/primitive"
	"google.golang.org/protobuf/proto"

	"verif/h/pt"
	"verif/h/sysx"
)

// E2 sequential mode: the whole system in a bubble; actions are SDK calls and service requests;
// internal goroutines are drained (synctest.Wait) after every action. DESIGN.md §3.5.

// E2Params configures a whole-system machine.
type E2Params struct {
	Clients    int      `json:"clients"` // SDK clients available
	Keys       []string `json:"keys"`    // datatype keys
	Type       string   `json:"type"`    // datatype type of every key
	Modes      []string `json:"modes"`   // entry modes offered: create | subscribe | soc
	Alpha      string   `json:"alpha"`
	Oracles    []string `json:"oracles"`
	SyncType   string   `json:"sync_type"` // manual (default) | realtime
	Colls      []string `json:"colls"`     // collections (default ["col"]); client i lives in Colls[i % len]
	Prefix     string   `json:"prefix"`    // scripted start state: "joined" = every client opened every key (subscribe-or-create) and synced
	Exchange   string   `json:"exchange"`  // "" = SDK Sync(); "pack" = harness-driven pack exchanges with transport faults (C07)
	Faults     []string `json:"faults"`    // transport faults offered: drop | dup | late
	MaxFault   int      `json:"max_faults"`
	Resend     bool     `json:"resend"`      // offer re-sending a client's previous request verbatim (C06)
	Types      []string `json:"types"`       // per-client datatype type (client i uses Types[i % len]); default: Type for all
	SyncFaults []string `json:"sync_faults"` // transport faults offered on SDK Sync(): drop | dup (bounded by max_faults)
	Foreign    bool     `json:"foreign"`     // offer foreign requests and ResetCollection (C17)
	Tolerant   bool     `json:"tolerant"`    // request errors are outcomes, not violations (fault enumeration)
	Patches    []string `json:"patches"`     // REST PatchDocument targets offered as actions (C19)
	Readers    int      `json:"readers"`     // read-only pulls offered per history (from checkpoint 0 and from the end of the log)
}

type e2dt struct {
	key   string
	rep   *Replica // wraps the client's datatype for calls and views
	mode  string
	acked map[string]string // "cuid:seq" -> digest of every own operation ever seen pending
	maxS  uint64
	maxC  uint64
}

type e2client struct {
	typ  string
	h    *sysx.ClientH
	idx  int
	coll string
	dts  map[string]*e2dt
	cuid string
	// the previous request of every key, as it was sent (fault "again": it reaches the server once more, later)
	sent map[string]*model.PushPullPack
}

type heldResp struct {
	key  string
	pack *model.PushPullPack
}

type e2Machine struct {
	schedMode bool // the machine is driven by the schedule search: goroutines started by the code under test run in any order
	nreader   int
	nreset    int
	nforeign  int
	nghost    int
	nusedid   int
	ghosted   map[int]bool
	ntxfail   int
	nreopen   int
	patched   []patchDone // REST patches answered with success (schedule scenarios)
	// REST patches that were answered with an error in a run with injected faults (their caller retries later)
	failedPatches []pt.Action
	// REST patches of a document that already had a log which were answered with an error
	patchRefused []string
	syncLost     []string
	dead         map[int]bool // clients whose collection was reset (they would have to reconnect)
	held         map[int][]heldResp
	nfault       int
	p            E2Params
	oracles      map[string]bool
	sys          *sysx.System
	cls          []*e2client
	last         string
	npub         int
	fatal        *pt.Violation
}

func init() {
	registry["E2"] = func(params json.RawMessage) Machine { return newE2(params) }
	bubbleChecks["E2"] = true
}

func newE2(params json.RawMessage) *e2Machine {
	var p E2Params
	json.Unmarshal(params, &p)
	if p.Clients == 0 {
		p.Clients = 2
	}
	if len(p.Keys) == 0 {
		p.Keys = []string{"k1"}
	}
	if len(p.Modes) == 0 {
		p.Modes = []string{"create", "subscribe", "soc"}
	}
	if len(p.Colls) == 0 {
		p.Colls = []string{"col"}
	}
	if p.Type == "" {
		p.Type = "counter"
	}
	resetUIDs()
	m := &e2Machine{p: p, oracles: map[string]bool{}, held: map[int][]heldResp{}, dead: map[int]bool{}}
	for _, o := range p.Oracles {
		m.oracles[o] = true
	}
	m.sys = sysx.NewSystem()
	if err := m.sys.StartServer(); err != nil {
		m.fatal = viol("E2:harness:start", "cannot start server: %v", err)
		return m
	}
	for _, c := range p.Colls {
		if err := m.sys.MakeCollection(c); err != nil {
			m.fatal = viol("E2:harness:collection", "cannot create collection: %v", err)
			return m
		}
	}
	st := model.SyncType_MANUALLY
	if p.SyncType == "realtime" {
		st = model.SyncType_REALTIME
	}
	for i := 0; i < p.Clients; i++ {
		coll := p.Colls[i%len(p.Colls)]
		h := m.sys.NewClient(coll, fmt.Sprintf("c%d", i), st)
		h.SeeOnSubscribe = m.oracles["entry"]
		c := &e2client{h: h, idx: i, coll: coll, dts: map[string]*e2dt{}, cuid: h.C.VerifCUID(), typ: p.Type}
		if len(p.Types) > 0 {
			c.typ = p.Types[i%len(p.Types)]
		}
		if err := h.Connect(); err != nil {
			m.fatal = viol("E2:harness:connect", "client %d cannot connect: %v", i, err)
			return m
		}
		m.cls = append(m.cls, c)
	}
	synctest.Wait()
	if p.Prefix == "ahead" {
		// client 0 has created every key and pushed three operations on it; nobody else has opened anything: a late
		// entrant's first sync brings a log whose clock is ahead of its own
		c := m.cls[0]
		var pre []pt.Action
		for _, k := range p.Keys {
			pre = append(pre, pt.Action{Op: "open", R: 0, T: k, K: "soc"})
		}
		pre = append(pre, pt.Action{Op: "sync", R: 0})
		for _, k := range p.Keys {
			switch c.typ {
			case "map":
				pre = append(pre, pt.Action{Op: "put", R: 0, K: "a", V: "p", T: k + "|"}, pt.Action{Op: "put", R: 0, K: "b", V: "p", T: k + "|"}, pt.Action{Op: "put", R: 0, K: "a", V: "p", T: k + "|"})
			case "list":
				pre = append(pre, pt.Action{Op: "ins1", R: 0, P: 0, V: "p", T: k + "|"}, pt.Action{Op: "ins1", R: 0, P: 1, V: "p", T: k + "|"}, pt.Action{Op: "ins1", R: 0, P: 2, V: "p", T: k + "|"})
			case "doc":
				pre = append(pre, pt.Action{Op: "dput", R: 0, K: "a", V: "a", T: k + "|"}, pt.Action{Op: "dins", R: 0, P: 2, N: 1, V: "p", T: k + "|a"}, pt.Action{Op: "dins", R: 0, P: 3, N: 1, V: "p", T: k + "|a"})
			default:
				pre = append(pre, pt.Action{Op: "inc", R: 0, P: 1, T: k + "|"}, pt.Action{Op: "inc", R: 0, P: 1, T: k + "|"}, pt.Action{Op: "inc", R: 0, P: 1, T: k + "|"})
			}
		}
		pre = append(pre, pt.Action{Op: "sync", R: 0})
		for _, a := range pre {
			if v := m.Apply(a); v != nil {
				m.fatal = v
				return m
			}
		}
	}
	if p.Prefix == "created" {
		// client 0 has created every key and pushed one operation; the other clients have not opened anything yet
		c := m.cls[0]
		for _, k := range p.Keys {
			if v := m.Apply(pt.Action{Op: "open", R: 0, T: k, K: "soc"}); v != nil {
				m.fatal = v
				return m
			}
			sync := pt.Action{Op: "sync", R: 0}
			if p.Exchange == "pack" {
				sync = pt.Action{Op: "xchg", R: 0, T: k, K: "ok"}
			}
			if v := m.Apply(sync); v != nil {
				m.fatal = v
				return m
			}
			w := &World{P: WParams{Type: c.typ}, typ: typeOf(c.typ), reps: []*Replica{c.dts[k].rep}}
			w.Local(localCalls(w, 0, "")[0])
			if v := m.Apply(sync); v != nil {
				m.fatal = v
				return m
			}
		}
	}
	if p.Prefix == "log1100" {
		// client 0 has created the first key and pushed 1100 operations in eleven requests; nobody else has joined: the
		// next subscriber pulls a range far longer than one database batch or any plausible page
		c := m.cls[0]
		k := p.Keys[0]
		if v := m.Apply(pt.Action{Op: "open", R: 0, T: k, K: "soc"}); v != nil {
			m.fatal = v
			return m
		}
		w := &World{P: WParams{Type: c.typ}, typ: typeOf(c.typ), reps: []*Replica{c.dts[k].rep}}
		for batch := 0; batch < 11; batch++ {
			for i := 0; i < 100; i++ {
				w.Local(localCalls(w, 0, "one")[0])
			}
			if v := m.Apply(pt.Action{Op: "sync", R: 0}); v != nil {
				m.fatal = v
				return m
			}
		}
	}
	if p.Prefix == "joined" || p.Prefix == "long" || p.Prefix == "bulk1100" {
		for _, c := range m.cls {
			for _, k := range p.Keys {
				if v := m.Apply(pt.Action{Op: "open", R: c.idx, T: k, K: "soc"}); v != nil {
					m.fatal = v
					return m
				}
			}
			if p.Exchange == "pack" {
				for _, k := range p.Keys {
					if v := m.Apply(pt.Action{Op: "xchg", R: c.idx, T: k, K: "ok"}); v != nil {
						m.fatal = v
						return m
					}
				}
				continue
			}
			if v := m.Apply(pt.Action{Op: "sync", R: c.idx}); v != nil {
				m.fatal = v
				return m
			}
		}
	}
	if p.Prefix == "bulk1100" {
		// every client has joined; client 0 then commits ONE transaction of 1100 operations and has not synced yet: more
		// than any buffer or page size of the push path, and it must reach every other client as one unit or not at all
		d := m.cls[0].dts[p.Keys[0]]
		var err error
		switch m.cls[0].typ {
		case "map":
			err = d.rep.mp.Transaction("bulk", func(mt orda.MapInTx) error {
				for i := 0; i < 1100; i++ {
					mt.Put(fmt.Sprintf("b%04d", i), i)
				}
				return nil
			})
		default:
			err = d.rep.cnt.Transaction("bulk", func(ct orda.CounterInTx) error {
				for i := 0; i < 1100; i++ {
					ct.IncreaseBy(1)
				}
				return nil
			})
		}
		if err != nil {
			m.fatal = viol("E2:harness:bulk-transaction", "%v", err)
			return m
		}
	}
	if p.Prefix == "long" {
		// every client has joined; client 0 then pushes eight operations one by one and four more in one request: the log
		// passes its tenth entry while the other clients stay at an old checkpoint (they were offline)
		var pre []pt.Action
		k := p.Keys[0]
		one := func() pt.Action {
			switch m.cls[0].typ {
			case "map":
				return pt.Action{Op: "put", R: 0, K: "a", V: "p", T: k + "|"}
			case "list":
				return pt.Action{Op: "ins1", R: 0, P: 0, V: "p", T: k + "|"}
			case "doc":
				return pt.Action{Op: "dput", R: 0, K: "a", V: "p", T: k + "|"}
			}
			return pt.Action{Op: "inc", R: 0, P: 1, T: k + "|"}
		}
		for i := 0; i < 8; i++ {
			pre = append(pre, one(), pt.Action{Op: "sync", R: 0})
		}
		pre = append(pre, one(), one(), one(), one(), pt.Action{Op: "sync", R: 0})
		for _, a := range pre {
			if v := m.Apply(a); v != nil {
				m.fatal = v
				return m
			}
		}
	}
	return m
}

func (m *e2Machine) Shutdown() { m.sys.Shutdown() }

func (m *e2Machine) Outcome() string { return m.last }

// openDatatype calls Create/Subscribe/SubscribeOrCreate<Type> on the client.
func (m *e2Machine) openDatatype(c *e2client, key, mode, typ string) *e2dt {
	h := c.h.Handlers(key)
	var d orda.Datatype
	cl := c.h.C
	switch typ + "/" + mode {
	case "counter/create":
		d = cl.CreateCounter(key, h)
	case "counter/subscribe":
		d = cl.SubscribeCounter(key, h)
	case "counter/soc":
		d = cl.SubscribeOrCreateCounter(key, h)
	case "map/create":
		d = cl.CreateMap(key, h)
	case "map/subscribe":
		d = cl.SubscribeMap(key, h)
	case "map/soc":
		d = cl.SubscribeOrCreateMap(key, h)
	case "list/create":
		d = cl.CreateList(key, h)
	case "list/subscribe":
		d = cl.SubscribeList(key, h)
	case "list/soc":
		d = cl.SubscribeOrCreateList(key, h)
	case "doc/create":
		d = cl.CreateDocument(key, h)
	case "doc/subscribe":
		d = cl.SubscribeDocument(key, h)
	case "doc/soc":
		d = cl.SubscribeOrCreateDocument(key, h)
	}
	if d == nil {
		return nil
	}
	r := asReplica(d)
	r.idx = c.idx
	return &e2dt{key: key, rep: r, mode: mode, acked: map[string]string{}}
}

func (m *e2Machine) Enabled() []pt.Action {
	if m.fatal != nil {
		// the scripted start state could not be built: one pseudo-step reports why (Apply returns m.fatal)
		return []pt.Action{{Op: "start-state"}}
	}
	var as []pt.Action
	if m.p.Foreign {
		if m.nreset < 1 {
			for _, coll := range m.p.Colls {
				as = append(as, pt.Action{Op: "reset", R: 0, T: coll})
			}
		}
		if m.nghost < 1 {
			// a client whose collection was reset is no longer registered: what it sends next, with or without registering
			// again somewhere else
			for _, c := range m.cls {
				if !m.dead[c.idx] || m.ghosted[c.idx] {
					continue
				}
				for _, k := range m.p.Keys {
					if _, ok := c.dts[k]; ok {
						as = append(as, pt.Action{Op: "ghost", R: c.idx, T: k, K: "stay"}, pt.Action{Op: "ghost", R: c.idx, T: k, K: "rejoin"})
						break
					}
				}
			}
		}
		if m.nforeign < 2 {
			for _, c := range m.cls {
				if m.dead[c.idx] {
					continue
				}
				for _, k := range m.p.Keys {
					if _, ok := c.dts[k]; !ok {
						continue
					}
					as = append(as, pt.Action{Op: "foreign", R: c.idx, T: k, K: "collection"})
					as = append(as, pt.Action{Op: "foreign", R: c.idx, T: k, K: "connect"})
					for _, bits := range []int{0, 1, 2, 3} {
						as = append(as, pt.Action{Op: "foreign", R: c.idx, T: k, K: "duid", P: bits})
					}
				}
			}
		}
	}
	if m.oracles["entry"] && m.nusedid < 1 {
		// an entry request for a key nobody uses that carries the id of a stored datatype (ids are drawn at random by the
		// clients: nothing but the server keeps two datatypes from getting the same one)
		if len(m.readStore()) > 0 {
			for _, c := range m.cls {
				if m.dead[c.idx] {
					continue
				}
				for _, mode := range []string{"create", "subscribe", "soc"} {
					as = append(as, pt.Action{Op: "usedid", R: c.idx, T: "kfresh", K: mode})
				}
			}
		}
	}
	if m.nreader < m.p.Readers {
		for _, c := range m.cls {
			if m.dead[c.idx] {
				continue
			}
			for _, k := range m.p.Keys {
				if d, ok := c.dts[k]; ok && d.rep.dt.GetState() == model.StateOfDatatype_SUBSCRIBED {
					as = append(as, pt.Action{Op: "ropull", R: c.idx, T: k, P: 0}, pt.Action{Op: "ropull", R: c.idx, T: k, P: 1})
				}
			}
		}
	}
	for _, k := range m.p.Keys {
		for _, t := range m.p.Patches {
			as = append(as, pt.Action{Op: "patch", R: 0, T: k, V: t})
		}
	}
	for _, c := range m.cls {
		if m.dead[c.idx] {
			continue
		}
		w := &World{P: WParams{Type: c.typ}, typ: typeOf(c.typ)}
		for _, k := range m.p.Keys {
			d, ok := c.dts[k]
			if !ok {
				for _, mode := range m.p.Modes {
					as = append(as, pt.Action{Op: "open", R: c.idx, T: k, K: mode})
				}
				continue
			}
			// (a subscriber may work on its provisional datatype before its first sync: the API allows it and
			// the protocol discards that work when the subscription completes)
			w.reps = []*Replica{d.rep}
			if m.oracles["entry"] && m.nreopen < 1 {
				// the same client uses its key a second time (pending or subscribed): with the same type it gets the handle it
				// already has, with another type it is refused through the error handler
				as = append(as, pt.Action{Op: "reopen", R: c.idx, T: k, K: "soc", V: "same"}, pt.Action{Op: "reopen", R: c.idx, T: k, K: "create", V: "other"})
				// the same refusal when the application gave no error handler, no handlers at all, or uses the generic entry point
				as = append(as, pt.Action{Op: "reopen", R: c.idx, T: k, K: "create", V: "other-no-error-handler"},
					pt.Action{Op: "reopen", R: c.idx, T: k, K: "create", V: "other-no-handlers"},
					pt.Action{Op: "reopen", R: c.idx, T: k, K: "create", V: "other-generic"})
			}
			if lc := localCalls(w, 0, m.p.Alpha); strings.Contains(m.p.Alpha, "txfail") && len(lc) > 0 && m.ntxfail < 1 {
				// a transaction that gives up after its first call (rolled back: nothing of it may remain, also not in the numbering)
				as = append(as, pt.Action{Op: "tx", R: c.idx, T: k + "|", Fail: true, Sub: []pt.Action{lc[0]}})
			}
			for _, a := range localCalls(w, 0, m.p.Alpha) {
				a.R = c.idx
				if a.T != "" {
					a.T = k + "|" + a.T
				} else {
					a.T = k + "|"
				}
				as = append(as, a)
			}
		}
		if len(c.dts) > 0 && m.p.Exchange == "" {
			as = append(as, pt.Action{Op: "sync", R: c.idx})
			if m.nfault < m.p.MaxFault {
				for _, f := range m.p.SyncFaults {
					as = append(as, pt.Action{Op: "sync", R: c.idx, K: f})
				}
			}
			if m.p.Resend && c.h.Stub.LastReq != nil {
				as = append(as, pt.Action{Op: "resend", R: c.idx})
			}
		}
		if m.p.Exchange == "pack" {
			for _, k := range m.p.Keys {
				if _, ok := c.dts[k]; !ok {
					continue
				}
				as = append(as, pt.Action{Op: "xchg", R: c.idx, T: k, K: "ok"})
				if m.nfault < m.p.MaxFault {
					for _, f := range m.p.Faults {
						if f == "again" && (c.sent == nil || c.sent[k] == nil) {
							continue
						}
						as = append(as, pt.Action{Op: "xchg", R: c.idx, T: k, K: f})
					}
				}
			}
			if len(m.held[c.idx]) > 0 {
				as = append(as, pt.Action{Op: "applylate", R: c.idx})
			}
		}
	}
	return as
}

// exchange performs one pack-level push-pull of datatype key of client c: build the pack, send it
// through the real service (protobuf round trip), and treat the response according to the fault.
func (m *e2Machine) exchange(c *e2client, key, fault string) *pt.Violation {
	d := c.dts[key]
	pack := d.rep.dt.CreatePushPullPack()
	if fault == "again" {
		// not a new request: a copy of the previous one arrives (late) and is answered; the answer reaches the client
		pack = c.sent[key]
	} else {
		if c.sent == nil {
			c.sent = map[string]*model.PushPullPack{}
		}
		b, _ := proto.Marshal(pack)
		var keep model.PushPullPack
		proto.Unmarshal(b, &keep)
		c.sent[key] = &keep
	}
	req := model.NewPushPullMessage(0, &model.Client{CUID: c.cuid, Collection: c.coll}, pack)
	send := func() (*model.PushPullMessage, error) {
		ctx, cancel := gocontext.WithCancel(gocontext.Background())
		defer cancel()
		b, _ := proto.Marshal(req)
		var in model.PushPullMessage
		proto.Unmarshal(b, &in)
		out, err := m.sys.Svc().ProcessPushPull(ctx, &in)
		if err != nil {
			return nil, err
		}
		b, _ = proto.Marshal(out)
		var res model.PushPullMessage
		proto.Unmarshal(b, &res)
		return &res, nil
	}
	var resp *model.PushPullMessage
	var err error
	if !callWithDeadline(func() { resp, err = send() }) {
		exitWith(viol("C16:request-never-answered:pushpull", "client %d key %s: ProcessPushPull did not return within 60 virtual seconds with every goroutine blocked (pack %s)", c.idx, key, pack.ToString(false)))
	}
	m.drain()
	if fault == "dup" {
		time.Sleep(time.Millisecond)
		if !callWithDeadline(func() { resp, err = send() }) {
			exitWith(viol("C16:request-never-answered:pushpull", "client %d key %s: second delivery of the request never returned", c.idx, key))
		}
		m.drain()
	}
	if err != nil {
		return viol("E2:exchange-error", "client %d key %s: service returned %v", c.idx, key, err)
	}
	if len(resp.PushPullPacks) != 1 {
		return viol("C16:missing-response-pack", "client %d key %s: response carries %d packs", c.idx, key, len(resp.PushPullPacks))
	}
	switch fault {
	case "drop":
	case "late":
		m.held[c.idx] = append(m.held[c.idx], heldResp{key: key, pack: resp.PushPullPacks[0]})
	default:
		d.rep.dt.ApplyPushPullPack(resp.PushPullPacks[0])
		m.drain()
	}
	return nil
}

func splitT(t string) (key, path string) {
	if i := strings.IndexByte(t, '|'); i >= 0 {
		return t[:i], t[i+1:]
	}
	return t, ""
}

// notePending remembers every own operation ever observed pending (to check the log against later).
func (m *e2Machine) notePending() {
	for _, c := range m.cls {
		for _, d := range c.dts {
			if d.mode != "create" && d.rep.dt.GetState() != model.StateOfDatatype_SUBSCRIBED {
				continue // what a (possible) subscriber does before its subscription completes is discarded by design
			}
			for _, op := range d.rep.dt.CreatePushPullPack().Operations {
				d.acked[opIDStr(op)] = fmt.Sprintf("%d|%s", op.OpType, string(op.Body))
			}
		}
	}
}

func (m *e2Machine) drain() {
	synctest.Wait()
}

func (m *e2Machine) Apply(a pt.Action) (v *pt.Violation) {
	if m.fatal != nil {
		return m.fatal
	}
	time.Sleep(time.Millisecond) // requests are at least a millisecond apart (stored timestamps differ)
	c := m.cls[a.R]
	pubsBefore := len(m.sys.Broker.Snapshot())
	opsBefore := m.storedOps()
	if m.oracles["isolate"] {
		actor := c.coll
		if a.Op == "reset" {
			actor = a.T
		}
		before := map[string]string{}
		for _, coll := range m.p.Colls {
			if coll != actor && a.Op != "ghost" { // a ghost's registration in the other collection is judged where it is made
				before[coll] = m.projection(coll)
			}
		}
		defer func() {
			if v != nil {
				return
			}
			for coll, b := range before {
				if after := m.projection(coll); after != b {
					v = viol("C17:foreign-collection-changed:"+a.Op, "%s by a client of collection %q changed what is stored for collection %q; first difference at %s", a, actor, coll, firstDiff(after, b))
					return
				}
			}
			v = m.checkCollections()
		}()
	}
	switch a.Op {
	case "reset":
		var err error
		if !callWithDeadline(func() {
			_, err = m.sys.Svc().ResetCollection(gocontext.Background(), &model.CollectionMessage{Collection: a.T})
		}) {
			exitWith(viol("C16:request-never-answered:reset", "ResetCollection(%s) never returned", a.T))
		}
		m.drain()
		m.nreset++
		m.last = fmt.Sprintf("reset err=%v", err != nil)
		for _, cl := range m.cls {
			if cl.coll == a.T {
				m.dead[cl.idx] = true
			}
		}
		if err != nil {
			return viol("C17:reset-failed", "ResetCollection(%s): %v", a.T, err)
		}
		if left := m.projection(a.T); strings.TrimSpace(stripHeaders(left)) != "" {
			return viol("C17:reset-left-documents", "after ResetCollection(%s) these documents of the collection remain:\n%s", a.T, clip(left, 1500))
		}
		return nil
	case "foreign":
		m.nforeign++
		return m.foreignRequest(c, a)
	case "usedid":
		m.nusedid++
		return m.usedIDRequest(c, a)
	case "ghost":
		m.nghost++
		if m.ghosted == nil {
			m.ghosted = map[int]bool{}
		}
		m.ghosted[c.idx] = true
		return m.ghostRequest(c, a)
	case "ropull":
		m.nreader++
		if v := m.readOnlyPull(c, a); v != nil {
			return v
		}
	case "patch":
		var resp *model.PatchMessage
		var err error
		store0 := m.readStore()
		if !callWithDeadline(func() {
			resp, err = m.sys.Svc().PatchDocument(gocontext.Background(), &model.PatchMessage{Collection: c.coll, Key: a.T, Json: a.V})
		}) {
			exitWith(viol("C16:request-never-answered:patch", "PatchDocument(%s, %s) never returned", a.T, a.V))
		}
		if err == nil && resp == nil {
			return viol("C16:request-answered-with-neither-response-nor-error:patch", "PatchDocument(%s, %s) returned neither a response nor an error", a.T, a.V)
		}
		m.drain()
		m.last = fmt.Sprintf("patch err=%v", err != nil)
		if err != nil && m.p.Tolerant {
			// a run with injected faults: the endpoint may fail, but then it must say so (checked below when it does not);
			// the REST caller will try again later
			m.failedPatches = append(m.failedPatches, a)
			return nil
		}
		if err != nil {
			return viol("C19:rest-patch-refused", "PatchDocument(%s, %s) returned %v", a.T, a.V, err)
		}
		if m.sys.DB.Dead() || m.sys.Svc() == nil {
			return nil // answered, then the server died: what it stored is checked after the restart (closure)
		}
		if canonJSON(resp.Json) != canonJSON(a.V) {
			return viol("C19:rest-response-differs", "PatchDocument(%s, %s) answered %s", a.T, a.V, resp.Json)
		}
		sv, serr := m.serverView(c.coll, a.T)
		if serr != nil && m.p.Tolerant {
			return nil // the harness's own look at the store ran into the injected fault
		}
		if serr != nil {
			return viol("C19:rest-patched-document-not-rebuildable", "%v", serr)
		}
		want := "json=" + canonJSON(a.V) + " "
		if !strings.HasPrefix(canonViewJSON(sv), want) {
			return viol("C19:rest-stored-document-differs", "after PatchDocument(%s, %s) the document rebuilt from the store reads %s", a.T, a.V, sv)
		}
		// the log gained exactly the patch's operations: no snapshot operation in the middle of a log
		for _, dt := range m.readStore() {
			if dt.key != a.T {
				continue
			}
			old := 0
			if o := store0[dt.duid]; o != nil {
				old = len(o.ops)
			}
			for i, op := range dt.ops {
				if i >= old && i > 0 && strings.HasSuffix(op.typ, "_SNAPSHOT") {
					return viol("C19:rest-patch-pushed-a-snapshot-operation", "PatchDocument(%s) appended a %s operation at log position %d of an existing log (every subscriber resets to it)", a.T, op.typ, i+1)
				}
			}
		}
	case "reopen":
		m.nreopen++
		d := c.dts[a.T]
		typ := c.typ
		if strings.HasPrefix(a.V, "other-") {
			// refused without a handler to tell: the call returns nothing, does not panic, and nothing changes
			other := map[string]string{"counter": "map", "map": "list", "list": "doc", "doc": "counter"}[c.typ]
			before := m.sys.DB.Dump()
			var got interface{}
			var perr interface{}
			func() {
				defer func() { perr = recover() }()
				var h *orda.Handlers
				if a.V == "other-no-error-handler" {
					h = orda.NewHandlers(func(dt orda.Datatype, o, n model.StateOfDatatype) {}, nil, nil)
				}
				switch {
				case a.V == "other-generic":
					if dt := c.h.C.CreateDatatype(a.T, typeOf(other), c.h.Handlers(a.T)); dt != nil {
						got = dt
					}
				case other == "map":
					if dt := c.h.C.CreateMap(a.T, h); dt != nil {
						got = dt
					}
				case other == "list":
					if dt := c.h.C.CreateList(a.T, h); dt != nil {
						got = dt
					}
				case other == "doc":
					if dt := c.h.C.CreateDocument(a.T, h); dt != nil {
						got = dt
					}
				default:
					if dt := c.h.C.CreateCounter(a.T, h); dt != nil {
						got = dt
					}
				}
			}()
			m.last = fmt.Sprintf("reopen %s nil=%v panic=%v", a.V, got == nil, perr != nil)
			if perr != nil {
				return viol("C13:own-key-reused-with-another-type-panics:"+a.V, "%s: the client holds %s as %s; opening it as %s panicked: %v", a, a.T, c.typ, other, perr)
			}
			if got != nil {
				return viol("C13:own-key-reused-with-another-type-not-refused:"+a.V, "%s: the client holds %s as %s, opening it as %s returned a datatype", a, a.T, c.typ, other)
			}
			if after := m.sys.DB.Dump(); after != before {
				return viol("C13:refused-entry-changed-store:"+a.V, "%s changed stored data", a)
			}
			return nil
		}
		if a.V == "other" {
			typ = map[string]string{"counter": "map", "map": "list", "list": "doc", "doc": "counter"}[c.typ]
		}
		_, errsBefore, _ := c.h.Events(a.T)
		nd := m.openDatatype(c, a.T, a.K, typ)
		_, errsAfter, _ := c.h.Events(a.T)
		m.last = fmt.Sprintf("reopen %s nil=%v errs=%d", a.V, nd == nil, len(errsAfter)-len(errsBefore))
		if a.V == "same" {
			if nd == nil || nd.rep.dt != d.rep.dt {
				return viol("C13:second-use-of-own-key-gives-another-datatype", "%s: the client already holds %s (state %v) but got %v instead of that handle", a, a.T, d.rep.dt.GetState(), nd)
			}
		} else {
			if nd != nil {
				return viol("C13:own-key-reused-with-another-type-not-refused", "%s: the client holds %s as %s, opening it as %s returned a datatype", a, a.T, c.typ, typ)
			}
			if len(errsAfter) <= len(errsBefore) {
				return viol("C13:own-key-reused-with-another-type-not-reported", "%s: refused, but the error handler was not called", a)
			}
		}
	case "open":
		d := m.openDatatype(c, a.T, a.K, c.typ)
		if d == nil {
			return viol("E2:open-returned-nil", "%s returned nil", a)
		}
		c.dts[a.T] = d
		m.last = "open"
	case "xchg":
		if a.K != "ok" {
			m.nfault++
		}
		if v := m.exchange(c, a.T, a.K); v != nil {
			return v
		}
		m.last = "xchg " + a.K
	case "applylate":
		hr := m.held[c.idx][0]
		m.held[c.idx] = m.held[c.idx][1:]
		c.dts[hr.key].rep.dt.ApplyPushPullPack(hr.pack)
		m.drain()
		m.last = "applylate"
	case "resend":
		ctx, cancel := gocontext.WithCancel(gocontext.Background())
		b, _ := proto.Marshal(c.h.Stub.LastReq)
		var in model.PushPullMessage
		proto.Unmarshal(b, &in)
		var err error
		if !callWithDeadline(func() { _, err = m.sys.Svc().ProcessPushPull(ctx, &in) }) {
			exitWith(viol("C16:request-never-answered:pushpull", "client %d: re-sent request never returned: %s", c.idx, in.ToString(false)))
		}
		cancel()
		m.drain()
		m.last = fmt.Sprintf("resend err=%v", err != nil)
	case "sync":
		var err error
		var preds []entryPred
		var dumpBefore string
		if m.oracles["entry"] {
			preds = m.predictEntries(c)
			dumpBefore = m.sys.DB.Dump()
		}
		defer func() {
			if v == nil && m.oracles["entry"] {
				v = m.checkEntries(c, preds, dumpBefore)
			}
		}()
		switch a.K {
		case "drop":
			c.h.Stub.Fault = sysx.RPCDropResponse
			m.nfault++
		case "dup":
			c.h.Stub.Fault = sysx.RPCDupRequest
			c.h.Stub.Between = func() { synctest.Wait(); time.Sleep(time.Millisecond) }
			m.nfault++
		}
		if !callWithDeadline(func() { err = c.h.C.Sync() }) {
			exitWith(viol("C16:request-never-answered:sync", "client %d: Sync() did not return within 60 virtual seconds with every goroutine blocked", c.idx))
		}
		m.drain()
		m.last = fmt.Sprintf("sync err=%v", err != nil)
		if err != nil && a.K != "drop" && !m.p.Tolerant {
			return viol("E2:sync-error", "client %d Sync() returned %v", a.R, err)
		}
	default:
		key, path := splitT(a.T)
		d := c.dts[key]
		la := a
		la.T = path
		la.R = 0
		w := &World{P: WParams{Type: c.typ}, typ: typeOf(c.typ), reps: []*Replica{d.rep}}
		if a.Op == "tx" && a.Fail {
			m.ntxfail++
		}
		out := w.Local(la)
		m.drain()
		m.last = fmt.Sprintf("%s|%s", out.Err, out.Ret)
		if out.Panic != "" {
			return viol("E2:panic:"+a.Op, "%s panicked: %s", a, out.Panic)
		}
	}
	m.notePending()
	if m.oracles["log"] {
		if v := m.checkLog(); v != nil {
			return v
		}
	}
	if m.oracles["checkpoint"] {
		for _, cl := range m.cls {
			for _, d := range cl.dts {
				p := d.rep.dt.CreatePushPullPack()
				s, cs := p.CheckPoint.Sseq, p.CheckPoint.Cseq-uint64(len(p.Operations))
				if s < d.maxS || cs < d.maxC {
					return viol("C05:checkpoint-moved-backwards", "client %d key %s: checkpoint (s:%d c:%d) after (s:%d c:%d)", cl.idx, d.key, s, cs, d.maxS, d.maxC)
				}
				d.maxS, d.maxC = s, cs
			}
		}
	}
	if m.oracles["notify"] {
		if v := m.checkNotify(a, pubsBefore, opsBefore); v != nil {
			return v
		}
	}
	if m.oracles["snapshots"] {
		if v := m.checkSnapshots(); v != nil {
			return v
		}
	}
	return nil
}

// patchDone is a REST patch that was answered with success.
type patchDone struct{ coll, key, target, answer string }

// storedOps returns, per datatype id, the number of stored operations.
func (m *e2Machine) storedOps() map[string]int {
	r := map[string]int{}
	for _, d := range m.sys.DB.Docs(schema.CollectionNameOperations) {
		duid, _ := getS(d, "duid")
		r[duid]++
	}
	return r
}

func getS(d bson.D, k string) (string, bool) {
	for _, e := range d {
		if e.Key == k {
			s, ok := e.Value.(string)
			return s, ok
		}
	}
	return "", false
}

func getV(d bson.D, k string) interface{} {
	for _, e := range d {
		if e.Key == k {
			return e.Value
		}
	}
	return nil
}

func getD(d bson.D, k string) bson.D {
	v, _ := getV(d, k).(bson.D)
	return v
}

func asU64(v interface{}) uint64 {
	switch x := v.(type) {
	case int32:
		return uint64(x)
	case int64:
		return uint64(x)
	case float64:
		return uint64(x)
	}
	return 0
}

type storedOp struct {
	id     string
	sseq   uint64
	cuid   string
	seq    uint64
	typ    string
	body   string
	colNum int32
}

type storedDT struct {
	duid, key, typ string
	colNum         int32
	end            uint64
	clients        map[string][2]uint64 // cuid -> (sseq, cseq)
	ops            []storedOp
}

// readStore parses the -_-Datatypes and -_-Operations collections.
func (m *e2Machine) readStore() map[string]*storedDT {
	res := map[string]*storedDT{}
	for _, d := range m.sys.DB.Docs(schema.CollectionNameDatatypes) {
		dt := &storedDT{clients: map[string][2]uint64{}}
		dt.duid, _ = getS(d, "_id")
		dt.key, _ = getS(d, "key")
		dt.typ, _ = getS(d, "type")
		if n, ok := getV(d, "colNum").(int32); ok {
			dt.colNum = n
		}
		dt.end = asU64(getV(getD(d, "sseq"), "end"))
		for _, grp := range []string{"rwClients", "roClients"} {
			for _, e := range getD(d, grp) {
				cd, _ := e.Value.(bson.D)
				cp := getD(cd, "cp")
				// model.CheckPoint is stored with its struct field names lower-cased by the driver
				var s, c uint64
				for _, f := range cp {
					switch strings.ToLower(f.Key) {
					case "sseq", "s":
						s = asU64(f.Value)
					case "cseq", "c":
						c = asU64(f.Value)
					}
				}
				dt.clients[e.Key] = [2]uint64{s, c}
			}
		}
		res[dt.duid] = dt
	}
	for _, d := range m.sys.DB.Docs(schema.CollectionNameOperations) {
		var op storedOp
		op.id, _ = getS(d, "_id")
		duid, _ := getS(d, "duid")
		op.sseq = asU64(getV(d, "sseq"))
		idd := getD(d, "id")
		op.cuid, _ = getS(idd, "cuid")
		op.seq = asU64(getV(idd, "seq"))
		op.typ, _ = getS(d, "type")
		if b, ok := getV(d, "body").(primitive.Binary); ok {
			op.body = string(b.Data)
		}
		if n, ok := getV(d, "colNum").(int32); ok {
			op.colNum = n
		}
		dt, ok := res[duid]
		if !ok {
			dt = &storedDT{duid: duid, clients: map[string][2]uint64{}, key: "?orphan"}
			res[duid] = dt
		}
		dt.ops = append(dt.ops, op)
	}
	for _, dt := range res {
		sort.Slice(dt.ops, func(i, j int) bool { return dt.ops[i].sseq < dt.ops[j].sseq })
	}
	return res
}

// checkLog: C06 invariants on the stored collections.
func (m *e2Machine) checkLog() *pt.Violation {
	store := m.readStore()
	duids := make([]string, 0, len(store))
	for k := range store {
		duids = append(duids, k)
	}
	sort.Strings(duids)
	for _, duid := range duids {
		dt := store[duid]
		if dt.key == "?orphan" {
			inUse := false
			for _, c := range m.cls {
				for _, d := range c.dts {
					if d.rep.dt.GetDUID() == duid && d.rep.dt.GetState() == model.StateOfDatatype_SUBSCRIBED {
						inUse = true
					}
				}
			}
			if m.p.Tolerant && !inUse {
				continue // litter of a creation that failed before its commit point and was never retried under this id
			}
			return viol("C06:operations-without-datatype", "operations stored for %s but no datatype document", duid)
		}
		perClient := map[string]uint64{}
		registered := map[string]bool{}
		for _, cd := range m.sys.DB.Docs(schema.CollectionNameClients) {
			id, _ := getS(cd, "_id")
			registered[id] = true
		}
		for _, c := range m.cls {
			registered[c.cuid] = true // (a reset may have purged the document)
		}
		for i, op := range dt.ops {
			if op.sseq != uint64(i+1) {
				return viol("C06:log-gap-or-repeat", "datatype %s (%s): operation %d has sseq %d", dt.key, duid, i, op.sseq)
			}
			if op.id != fmt.Sprintf("%s:%d", duid, op.sseq) {
				return viol("C06:operation-id-format", "operation id %q for sseq %d", op.id, op.sseq)
			}
			if !registered[op.cuid] {
				continue // pushed by the administrative volatile client (REST patch): rebuilt replicas restart their numbering
			}
			if op.seq != perClient[op.cuid]+1 {
				return viol("C06:client-order-broken", "datatype %s: client %s's operation at sseq %d has seq %d after %d", dt.key, op.cuid, op.sseq, op.seq, perClient[op.cuid])
			}
			perClient[op.cuid] = op.seq
		}
		if dt.end != uint64(len(dt.ops)) {
			return viol("C06:end-of-log-mismatch", "datatype %s: recorded end of log %d, stored operations %d", dt.key, dt.end, len(dt.ops))
		}
		for cuid, cp := range dt.clients {
			if cp[0] > dt.end {
				return viol("C06:checkpoint-beyond-log", "datatype %s: client %s checkpoint sseq %d > end %d", dt.key, cuid, cp[0], dt.end)
			}
			if cp[1] > perClient[cuid] {
				return viol("C06:checkpoint-acknowledges-unstored", "datatype %s: client %s checkpoint cseq %d but only %d operations stored", dt.key, cuid, cp[1], perClient[cuid])
			}
		}
	}
	// every operation a client considers acknowledged is stored exactly as issued
	for _, c := range m.cls {
		if m.dead[c.idx] {
			continue
		}
		for _, d := range c.dts {
			p := d.rep.dt.CreatePushPullPack()
			acked := p.CheckPoint.Cseq - uint64(len(p.Operations))
			dt := store[d.rep.dt.GetDUID()]
			have := map[uint64]storedOp{}
			if dt != nil {
				for _, op := range dt.ops {
					if op.cuid == c.cuid {
						have[op.seq] = op
					}
				}
			}
			for s := uint64(1); s <= acked; s++ {
				want, known := d.acked[fmt.Sprintf("%s:%d", c.cuid, s)]
				op, ok := have[s]
				if !ok {
					return viol("C06:acknowledged-operation-not-stored", "client %d key %s: operation seq %d is acknowledged (cseq %d) but not stored", c.idx, d.key, s, acked)
				}
				if known {
					typ := model.TypeOfOperation(model.TypeOfOperation_value[op.typ])
					if got := fmt.Sprintf("%d|%s", typ, op.body); got != want {
						return viol("C06:stored-operation-differs", "client %d key %s seq %d: stored %s, issued %s", c.idx, d.key, s, clip(got, 200), clip(want, 200))
					}
				}
			}
		}
	}
	return nil
}

// checkNotify: C18a — one publish per datatype whose log grew in this request, none otherwise.
func (m *e2Machine) checkNotify(a pt.Action, pubsBefore int, opsBefore map[string]int) *pt.Violation {
	pubs := m.sys.Broker.Snapshot()[pubsBefore:]
	after := m.storedOps()
	store := m.readStore()
	want := map[string]string{} // topic -> payload
	for duid, n := range after {
		if n > opsBefore[duid] {
			dt := store[duid]
			if dt == nil {
				continue
			}
			c := m.cls[a.R]
			want[c.coll+"/"+dt.key] = jsonStr(model.Notification{CUID: c.cuid, DUID: duid, Sseq: dt.end})
		}
	}
	if len(pubs) != len(want) {
		return viol("C18:publish-count", "%s stored operations for %d datatypes but %d notifications were published: %v", a, len(want), len(pubs), pubs)
	}
	for _, p := range pubs {
		w, ok := want[p.Topic]
		if !ok {
			return viol("C18:publish-wrong-topic", "%s: publish on %q, expected one of %v", a, p.Topic, want)
		}
		if canonJSON(p.Payload) != canonJSON(w) {
			return viol("C18:publish-wrong-payload", "%s: topic %s payload %s, expected %s", a, p.Topic, p.Payload, w)
		}
	}
	return nil
}

func (m *e2Machine) Key() (string, bool) {
	h := sha256.New()
	fmt.Fprintf(h, "DB\n%s\nF%d\nR%d\nT%d\nO%d\n", m.sys.DB.Dump(), m.nfault, m.nreader, m.ntxfail, m.nreopen)
	for i := 0; i < len(m.cls); i++ {
		for _, hr := range m.held[i] {
			b, _ := proto.Marshal(hr.pack)
			fmt.Fprintf(h, "HELD%d|%s|%x\n", i, hr.key, b)
		}
	}
	nt := 0
	for _, c := range m.cls {
		keys := make([]string, 0, len(c.dts))
		for k := range c.dts {
			keys = append(keys, k)
		}
		sort.Strings(keys)
		for _, k := range keys {
			d := c.dts[k]
			meta, snap := d.rep.Export()
			p := d.rep.dt.CreatePushPullPack()
			fmt.Fprintf(h, "C%d|%s|%s|%s|%s|%d|%v|%d|%s\n", c.idx, k, meta, snap, opsDigest(p.Operations), p.CheckPoint.Sseq, d.rep.dt.GetState(), d.rep.nloc, d.mode)
			st, errs, rem := c.h.Events(k)
			fmt.Fprintf(h, "EV|%v|%v|%d\n", st, errs, len(rem))
			if len(rem) > 0 && len(d.acked) > 1 {
				nt++
			}
		}
	}
	return hex.EncodeToString(h.Sum(nil)[:12]), nt > 0
}

// serverView rebuilds the datatype the way the server does (latest snapshot + later operations).
func (m *e2Machine) serverView(coll, key string) (string, error) {
	ctx := m.sys.Ctx
	colDoc, err := m.sys.Repo.GetCollection(ctx, coll)
	if err != nil || colDoc == nil {
		return "", fmt.Errorf("collection: %v", err)
	}
	dtDoc, err := m.sys.Repo.GetDatatypeByKey(ctx, colDoc.Num, key)
	if err != nil || dtDoc == nil {
		return "", fmt.Errorf("no datatype document for %s: %v", key, err)
	}
	mgr := snapshot.NewManager(ctx, m.sys.Mgrs, dtDoc, colDoc)
	d, _, err := mgr.GetLatestDatatype()
	if err != nil {
		return "", err
	}
	return asReplica(d).View(), nil
}

// Close: C05 — after every client synced with nothing left to push or pull, all clients hold equal
// state per key, equal to the state the server rebuilds; each applied each other's operations
// exactly once in log order.
func (m *e2Machine) Close() *pt.Violation {
	if !m.oracles["converge"] {
		return nil
	}
	for round := 0; round < 3; round++ {
		for _, c := range m.cls {
			if len(c.dts) == 0 || m.dead[c.idx] {
				continue
			}
			time.Sleep(time.Millisecond)
			if m.p.Exchange == "pack" {
				for _, k := range m.p.Keys {
					if _, ok := c.dts[k]; ok {
						if v := m.exchange(c, k, "ok"); v != nil {
							return v
						}
					}
				}
				continue
			}
			var err error
			if !callWithDeadline(func() { err = c.h.C.Sync() }) {
				exitWith(viol("C16:request-never-answered:sync", "closure: client %d: Sync() never returned", c.idx))
			}
			if err != nil {
				return viol("E2:sync-error", "closure: client %d Sync() returned %v", c.idx, err)
			}
			m.drain()
		}
	}
	store := m.readStore()
	// an entry (Create / Subscribe / SubscribeOrCreate) that nothing stands against must have completed by now: a datatype
	// that stays unsubscribed for ever is as lost as an operation that is never pushed
	collNum := map[string]int32{}
	for _, cd := range m.sys.DB.Docs(schema.CollectionNameCollections) {
		n, _ := getS(cd, "_id")
		if num, ok := getV(cd, "num").(int32); ok {
			collNum[n] = num
		}
	}
	for _, c := range m.cls {
		if m.dead[c.idx] {
			continue
		}
		for k, d := range c.dts {
			if d.rep.dt.GetState() == model.StateOfDatatype_SUBSCRIBED {
				continue
			}
			var stored *storedDT
			for _, s := range store {
				if s.key == k && s.colNum == collNum[c.coll] {
					stored = s
				}
			}
			sameType := stored != nil && stored.typ == typeName(c.typ)
			owed := false
			switch d.mode {
			case "create":
				owed = stored == nil
			case "subscribe":
				owed = sameType
			default:
				owed = stored == nil || sameType
			}
			if owed {
				_, es, _ := c.h.Events(k)
				return viol("C05:entry-never-completed:"+d.mode, "client %d opened key %s with %s; after three fault-free sync rounds it is still %v although nothing stands against it (stored datatype for the key: %v); errors reported to it: %v", c.idx, k, d.mode, d.rep.dt.GetState(), stored != nil, clip(fmt.Sprint(es), 500))
			}
		}
	}
	for _, coll := range m.p.Colls {
		for _, k := range m.p.Keys {
			var first string
			var firstIdx int
			have := false
			for _, c := range m.cls {
				d, ok := c.dts[k]
				if !ok || c.coll != coll || d.rep.dt.GetState() != model.StateOfDatatype_SUBSCRIBED || m.dead[c.idx] {
					continue
				}
				if n := len(d.rep.dt.CreatePushPullPack().Operations); n > 0 {
					return viol("C05:closure-still-pending", "client %d key %s still has %d operations to push after three sync rounds", c.idx, k, n)
				}
				// applied-remote sequence: the other clients' operations, once each, in log order
				var dt *storedDT
				for _, s := range store {
					if s.duid == d.rep.dt.GetDUID() {
						dt = s
					}
				}
				if dt != nil && m.oracles["applied"] {
					var want []string
					for _, op := range dt.ops {
						if op.cuid != c.cuid {
							want = append(want, fmt.Sprintf("%s:%d", op.cuid, op.seq))
						}
					}
					_, _, got := c.h.Events(k)
					if m.schedMode {
						// under the schedule search the handler calls of two applied responses run in goroutines of their own
						// (go callHandlers) and may be told in either order although the operations were applied in log order:
						// what the handler events can still tell is "each exactly once"
						got = append([]string{}, got...)
						want = append([]string{}, want...)
						sort.Strings(got)
						sort.Strings(want)
					}
					if strings.Join(got, ",") != strings.Join(want, ",") {
						class := "reordered-or-missing"
						seen := map[string]bool{}
						for _, g := range got {
							if strings.HasPrefix(g, c.cuid+":") {
								class = "own-operation-applied-as-remote"
								break
							}
							if seen[g] {
								class = "operation-applied-twice"
							}
							seen[g] = true
						}
						if class == "reordered-or-missing" && len(got) < len(want) {
							class = "operation-never-applied"
						}
						return viol("C05:applied-sequence-differs:"+class, "client %d key %s applied remote operations %v, the log holds (others' operations in order) %v", c.idx, k, got, want)
					}
				}
				v := d.rep.View()
				if !have {
					first, firstIdx, have = v, c.idx, true
				} else if v != first {
					return viol("C05:clients-diverge:"+m.p.Type+":"+diffClass(first, v), "key %s: client %d: %s\n client %d: %s", k, firstIdx, first, c.idx, v)
				}
			}
			if have && m.oracles["issued"] {
				// every operation any client ever issued on this key is stored exactly once
				for _, c := range m.cls {
					d, ok := c.dts[k]
					if !ok || c.coll != coll || d.rep.dt.GetState() != model.StateOfDatatype_SUBSCRIBED {
						continue // e.g. a refused Create
					}
					dt := store[d.rep.dt.GetDUID()]
					cnt := map[string]int{}
					if dt != nil {
						for _, op := range dt.ops {
							cnt[fmt.Sprintf("%s:%d", op.cuid, op.seq)]++
						}
					}
					for id := range d.acked {
						if !strings.HasPrefix(id, c.cuid+":") {
							continue
						}
						if cnt[id] != 1 {
							return viol("C07:issued-operation-stored-"+fmt.Sprint(cnt[id])+"-times", "key %s: operation %s issued by client %d is stored %d times after the fault-free closure", k, id, c.idx, cnt[id])
						}
					}
				}
			}
			if have && m.oracles["reference"] {
				var duid string
				for _, c := range m.cls {
					if d, ok := c.dts[k]; ok && c.coll == coll && d.rep.dt.GetState() == model.StateOfDatatype_SUBSCRIBED {
						duid = d.rep.dt.GetDUID()
					}
				}
				ops, _, err := m.sys.Repo.GetOperations(m.sys.Ctx, duid, 1, ^uint64(0))
				if err != nil {
					return viol("E2:harness:read-log", "%v", err)
				}
				want, rerr := referenceView(m.p.Type, ops)
				if rerr != nil {
					return viol("C07:reference-not-computable", "key %s: %v", k, rerr)
				}
				if want != first {
					return viol("C07:state-differs-from-exactly-once-outcome:"+m.p.Type+":"+diffClass(want, first), "key %s: clients hold %s\n each logged operation applied once gives %s", k, first, want)
				}
			}
			if have {
				sv, err := m.serverView(coll, k)
				if err != nil {
					return viol("C05:server-rebuild-failed", "key %s: %v", k, err)
				}
				if sv != first {
					return viol("C05:server-differs-from-clients:"+m.p.Type+":"+diffClass(first, sv), "key %s: clients: %s\n server:  %s", k, first, sv)
				}
			}
		}
	}
	return nil
}

var _ = gocontext.Background
var _ iface.Datatype

// ---------------------------------------------------------------------------------------------
// C13: contract of Create / Subscribe / SubscribeOrCreate
// ---------------------------------------------------------------------------------------------

type entryPred struct {
	key     string
	mode    string
	refused bool
	why     string
	creates bool
	nErrs   int
	nStates int
}

// predictEntries says, from the stored collections, what the server must answer to every datatype
// of client c that has not completed its entry yet.
func (m *e2Machine) predictEntries(c *e2client) []entryPred {
	store := m.readStore()
	colDoc, _ := m.sys.Repo.GetCollection(m.sys.Ctx, c.coll)
	var out []entryPred
	for k, d := range c.dts {
		if d.rep.dt.GetState() == model.StateOfDatatype_SUBSCRIBED {
			continue
		}
		var ex *storedDT
		for _, s := range store {
			if s.key == k && colDoc != nil && s.colNum == colDoc.Num {
				ex = s
			}
		}
		_, errs, _ := c.h.Events(k)
		st, _, _ := c.h.Events(k)
		p := entryPred{key: k, mode: d.mode, nErrs: len(errs), nStates: len(st)}
		wantType := typeOf(c.typ).String()
		switch {
		case ex == nil && d.mode == "subscribe":
			p.refused, p.why = true, "subscribe-to-missing-key"
		case ex == nil:
			p.creates = true
		case ex.typ != wantType:
			p.refused, p.why = true, "key-has-another-type"
		case d.mode == "create":
			if _, sub := ex.clients[c.cuid]; !sub {
				p.refused, p.why = true, "create-on-existing-key"
			}
		}
		out = append(out, p)
	}
	sort.Slice(out, func(i, j int) bool { return out[i].key < out[j].key })
	return out
}

func (m *e2Machine) checkEntries(c *e2client, preds []entryPred, dumpBefore string) *pt.Violation {
	for _, p := range preds {
		d := c.dts[p.key]
		st, errs, _ := c.h.Events(p.key)
		state := d.rep.dt.GetState()
		if p.refused {
			if len(errs) <= p.nErrs {
				return viol("C13:refusal-not-reported:"+p.why, "client %d %s(%s) must be refused (%s) but the error handler was not called (state %v)", c.idx, p.mode, p.key, p.why, state)
			}
			if state == model.StateOfDatatype_SUBSCRIBED {
				return viol("C13:refused-entry-subscribed:"+p.why, "client %d %s(%s) must be refused (%s) but the datatype became SUBSCRIBED", c.idx, p.mode, p.key, p.why)
			}
			if len(c.dts) == 1 {
				if after := m.sys.DB.Dump(); after != dumpBefore {
					return viol("C13:refused-entry-changed-store:"+p.why, "client %d %s(%s) must be refused (%s) but stored data changed; first difference at %s", c.idx, p.mode, p.key, p.why, firstDiff(after, dumpBefore))
				}
			}
			continue
		}
		if len(errs) > p.nErrs {
			return viol("C13:valid-entry-reported-error", "client %d %s(%s) is valid but the error handler got %v", c.idx, p.mode, p.key, errs[p.nErrs:])
		}
		if state != model.StateOfDatatype_SUBSCRIBED {
			return viol("C13:valid-entry-not-subscribed", "client %d %s(%s) is valid but the state is %v", c.idx, p.mode, p.key, state)
		}
		n := 0
		for _, s := range st {
			if strings.HasSuffix(s, "->SUBSCRIBED") {
				n++
			}
		}
		if n != 1 {
			return viol("C13:subscribed-transition-count", "client %d key %s: the state-change handler reported the transition to SUBSCRIBED %d times: %v", c.idx, p.key, n, st)
		}
		// a new subscriber's first state = the datatype's state at the log position it subscribed at
		if !p.creates {
			pack := d.rep.dt.CreatePushPullPack()
			ops, _, err := m.sys.Repo.GetOperations(m.sys.Ctx, d.rep.dt.GetDUID(), 1, ^uint64(0))
			if err != nil {
				return viol("E2:harness:read-log", "%v", err)
			}
			if uint64(len(ops)) > pack.CheckPoint.Sseq {
				ops = ops[:pack.CheckPoint.Sseq]
			}
			w := &World{P: WParams{Type: c.typ}, typ: typeOf(c.typ), log: ops}
			sc, serr := w.ServerCopy(len(ops))
			if serr != nil {
				return viol("C13:log-not-replayable", "key %s: %v", p.key, serr)
			}
			// ... and that is what the application sees when it is told that it is subscribed
			c.h.Lock()
			seen := append([]string{}, c.h.Seen[p.key]...)
			c.h.Unlock()
			if len(seen) == 1 {
				b, _ := json.Marshal(sc.typed().ToJSON())
				if seen[0] != string(b) {
					return viol("C13:state-shown-when-told-subscribed-differs-from-log-position:"+c.typ, "client %d key %s subscribed at log position %d; in the state-change handler (-> SUBSCRIBED) the datatype read %s, the log up to that position gives %s", c.idx, p.key, pack.CheckPoint.Sseq, seen[0], b)
				}
			}
			if a, b := d.rep.View(), sc.View(); a != b {
				return viol("C13:first-state-differs-from-log-position:"+c.typ, "client %d key %s subscribed at log position %d:\n client: %s\n log[1..%d]: %s", c.idx, p.key, pack.CheckPoint.Sseq, a, pack.CheckPoint.Sseq, b)
			}
		}
	}
	return nil
}

// ---------------------------------------------------------------------------------------------
// C17: isolation of collections
// ---------------------------------------------------------------------------------------------

func stripHeaders(s string) string {
	var out []string
	for _, l := range strings.Split(s, "\n") {
		if !strings.HasPrefix(l, "## ") {
			out = append(out, l)
		}
	}
	return strings.Join(out, "\n")
}

// projection renders everything the database holds for one collection: datatype, operation,
// snapshot and client documents carrying its number, and its user-visible collection.
func (m *e2Machine) projection(coll string) string {
	var num int32 = -1
	for _, d := range m.sys.DB.Docs(schema.CollectionNameCollections) {
		if n, _ := getS(d, "_id"); n == coll {
			if x, ok := getV(d, "num").(int32); ok {
				num = x
			}
		}
	}
	var sb strings.Builder
	if num >= 0 {
		f := bson.D{{Key: "colNum", Value: num}}
		for _, cn := range []string{schema.CollectionNameDatatypes, schema.CollectionNameOperations, schema.CollectionNameSnapshot, schema.CollectionNameClients} {
			fmt.Fprintf(&sb, "## %s\n%s\n", cn, strings.Join(m.sys.DB.DumpColl(cn, f), "\n"))
		}
	}
	fmt.Fprintf(&sb, "## user:%s\n%s\n", coll, strings.Join(m.sys.DB.DumpColl(coll, nil), "\n"))
	return sb.String()
}

// checkCollections: collection numbers are pairwise distinct and every document's number names a collection.
func (m *e2Machine) checkCollections() *pt.Violation {
	seen := map[int32]string{}
	for _, d := range m.sys.DB.Docs(schema.CollectionNameCollections) {
		name, _ := getS(d, "_id")
		n, _ := getV(d, "num").(int32)
		if other, ok := seen[n]; ok {
			return viol("C17:collection-number-reused", "collections %q and %q share number %d", other, name, n)
		}
		seen[n] = name
	}
	return nil
}

// checkIsolation: every stored datatype, operation, snapshot and client document carries the number of an existing
// collection, and no two clients' datatypes of different collections share a datatype document.
func (m *e2Machine) checkIsolation() *pt.Violation {
	nums := map[int32]string{}
	for _, d := range m.sys.DB.Docs(schema.CollectionNameCollections) {
		name, _ := getS(d, "_id")
		n, _ := getV(d, "num").(int32)
		nums[n] = name
	}
	for _, cn := range []string{schema.CollectionNameDatatypes, schema.CollectionNameClients} {
		for _, d := range m.sys.DB.Docs(cn) {
			n, ok := getV(d, "colNum").(int32)
			if !ok {
				continue
			}
			if _, ok := nums[n]; !ok {
				id, _ := getS(d, "_id")
				return viol("C17:document-of-no-collection", "%s document %s carries collection number %d, which no collection has", cn, id, n)
			}
		}
	}
	// clients of different collections that opened the same key must hold different datatypes
	type holder struct {
		coll string
		idx  int
	}
	byDUID := map[string]holder{}
	for _, c := range m.cls {
		for _, d := range c.dts {
			if d.rep.dt.GetState() != model.StateOfDatatype_SUBSCRIBED {
				continue
			}
			id := d.rep.dt.GetDUID()
			if h, ok := byDUID[id]; ok && h.coll != c.coll {
				return viol("C17:datatype-shared-across-collections", "client %d (collection %s) and client %d (collection %s) are subscribed to the same datatype %s", h.idx, h.coll, c.idx, c.coll, id)
			}
			byDUID[id] = holder{c.coll, c.idx}
		}
	}
	return nil
}

// foreignRequest sends a request that reaches outside the client's collection.
func (m *e2Machine) foreignRequest(c *e2client, a pt.Action) *pt.Violation {
	d := c.dts[a.T]
	pack := d.rep.dt.CreatePushPullPack()
	other := ""
	for _, coll := range m.p.Colls {
		if coll != c.coll {
			other = coll
		}
	}
	req := model.NewPushPullMessage(0, &model.Client{CUID: c.cuid, Collection: c.coll}, pack)
	switch a.K {
	case "connect":
		// the client registers again, naming the other collection: refused, and nothing stored may change
		before := m.sys.DB.Dump()
		var err error
		if !callWithDeadline(func() {
			ctx, cancel := gocontext.WithCancel(gocontext.Background())
			defer cancel()
			_, err = m.sys.Svc().ProcessClient(ctx, model.NewClientMessage(&model.Client{CUID: c.cuid, Alias: c.h.Name, Collection: other, SyncType: model.SyncType_MANUALLY}))
		}) {
			exitWith(viol("C16:request-never-answered:foreign", "foreign registration %s never returned", a))
		}
		m.drain()
		m.last = fmt.Sprintf("foreign connect err=%v", err != nil)
		if err == nil {
			return viol("C17:foreign-registration-accepted", "%s: a client registered in %q registered again in %q without being refused", a, c.coll, other)
		}
		if after := m.sys.DB.Dump(); after != before {
			return viol("C17:refused-foreign-registration-changed-store", "%s: refused (%v) but stored data changed; first difference at %s", a, err, firstDiff(after, before))
		}
		return nil
	case "collection":
		req.Collection = other
	case "duid":
		// the id of the same key's datatype in the other collection (if it exists)
		var foreign string
		var onum int32 = -1
		for _, cd := range m.sys.DB.Docs(schema.CollectionNameCollections) {
			if n, _ := getS(cd, "_id"); n == other {
				onum, _ = getV(cd, "num").(int32)
			}
		}
		for _, s := range m.readStore() {
			if s.key == a.T && s.colNum == onum {
				foreign = s.duid
			}
		}
		if foreign == "" {
			m.last = "foreign: nothing to aim at"
			return nil
		}
		pack.DUID = foreign
		pack.Option = uint32(a.P)
	}
	var resp *model.PushPullMessage
	var err error
	if !callWithDeadline(func() {
		ctx, cancel := gocontext.WithCancel(gocontext.Background())
		defer cancel()
		b, _ := proto.Marshal(req)
		var in model.PushPullMessage
		proto.Unmarshal(b, &in)
		resp, err = m.sys.Svc().ProcessPushPull(ctx, &in)
	}) {
		exitWith(viol("C16:request-never-answered:foreign", "foreign request %s never returned", a))
	}
	m.drain()
	m.last = fmt.Sprintf("foreign %s err=%v", a.K, err != nil)
	if resp != nil {
		for _, pk := range resp.PushPullPacks {
			if pk.GetPushPullPackOption().HasErrorBit() {
				continue
			}
			if a.K == "duid" && len(pk.Operations) > 0 && pk.DUID == pack.DUID {
				// operations of the foreign datatype must never be handed out
				return viol("C17:foreign-operations-delivered", "%s: the response hands %d operations of datatype %s (collection %q) to a client of %q", a, len(pk.Operations), pk.DUID, other, c.coll)
			}
		}
	}
	if a.K == "collection" && err == nil {
		return viol("C17:foreign-collection-accepted", "%s: a request naming collection %q by a client registered in %q was not refused", a, other, c.coll)
	}
	return nil
}

// usedIDRequest sends, in the name of client c, the entry request the SDK builds for a new datatype of key a.T (mode a.K),
// except that it carries the id of a datatype stored under another key of the same collection: it must be refused, and
// nothing stored may change (the datatype that owns the id keeps its key, its log and its clients).
func (m *e2Machine) usedIDRequest(c *e2client, a pt.Action) *pt.Violation {
	var colNum int32 = -1
	for _, cd := range m.sys.DB.Docs(schema.CollectionNameCollections) {
		if n, _ := getS(cd, "_id"); n == c.coll {
			colNum, _ = getV(cd, "num").(int32)
		}
	}
	var victim *storedDT
	for _, s := range m.readStore() {
		if s.colNum == colNum && s.key != a.T && (victim == nil || s.key < victim.key) {
			victim = s
		}
	}
	if victim == nil {
		m.last = "usedid: nothing to aim at"
		return nil
	}
	var bits uint32 = map[string]uint32{"create": 0x01, "subscribe": 0x02, "soc": 0x03}[a.K]
	r := newReplica(9, typeOf(c.typ), bits&1 != 0, 0)
	pack := r.dt.CreatePushPullPack()
	pack.Key, pack.DUID, pack.Option = a.T, victim.duid, bits
	for _, op := range pack.Operations {
		op.ID.CUID = c.cuid
	}
	req := model.NewPushPullMessage(0, &model.Client{CUID: c.cuid, Collection: c.coll}, pack)
	before := m.sys.DB.Dump()
	var resp *model.PushPullMessage
	var err error
	if !callWithDeadline(func() {
		ctx, cancel := gocontext.WithCancel(gocontext.Background())
		defer cancel()
		b, _ := proto.Marshal(req)
		var in model.PushPullMessage
		proto.Unmarshal(b, &in)
		resp, err = m.sys.Svc().ProcessPushPull(ctx, &in)
	}) {
		exitWith(viol("C16:request-never-answered:usedid", "request %s never returned", a))
	}
	m.drain()
	refused := err != nil
	if resp != nil {
		for _, pk := range resp.PushPullPacks {
			if pk.GetPushPullPackOption().HasErrorBit() {
				refused = true
			}
		}
	}
	m.last = fmt.Sprintf("usedid %s refused=%v", a.K, refused)
	if !refused {
		return viol("C13:entry-with-used-datatype-id-accepted:"+a.K, "%s: the request names the unused key %q and carries the id %s of the datatype stored under key %q: it was not refused", a, a.T, victim.duid, victim.key)
	}
	if after := m.sys.DB.Dump(); after != before {
		return viol("C13:refused-entry-changed-store:used-id:"+a.K, "%s: refused, but stored data changed; first difference at %s", a, firstDiff(after, before))
	}
	return nil
}

// ghostRequest: client c was removed by the reset of its collection. K == "stay": its next request, still naming that
// collection, is not served (it is no longer registered) and changes nothing. K == "rejoin": it registers in the other
// collection (its id is free again), after which a request naming the old collection is refused without changing anything
// and a request naming its new collection is served.
func (m *e2Machine) ghostRequest(c *e2client, a pt.Action) *pt.Violation {
	d := c.dts[a.T]
	other := ""
	for _, coll := range m.p.Colls {
		if coll != c.coll {
			other = coll
		}
	}
	send := func(coll string, packs ...*model.PushPullPack) (resp *model.PushPullMessage, err error) {
		req := model.NewPushPullMessage(0, &model.Client{CUID: c.cuid, Collection: coll}, packs...)
		if !callWithDeadline(func() {
			ctx, cancel := gocontext.WithCancel(gocontext.Background())
			defer cancel()
			b, _ := proto.Marshal(req)
			var in model.PushPullMessage
			proto.Unmarshal(b, &in)
			resp, err = m.sys.Svc().ProcessPushPull(ctx, &in)
		}) {
			exitWith(viol("C16:request-never-answered:ghost", "request %s of a client removed by a reset never returned", a))
		}
		m.drain()
		return
	}
	if a.K == "rejoin" {
		var err error
		if !callWithDeadline(func() {
			ctx, cancel := gocontext.WithCancel(gocontext.Background())
			defer cancel()
			_, err = m.sys.Svc().ProcessClient(ctx, model.NewClientMessage(&model.Client{CUID: c.cuid, Alias: c.h.Name, Collection: other, SyncType: model.SyncType_MANUALLY}))
		}) {
			exitWith(viol("C16:request-never-answered:ghost", "registration %s never returned", a))
		}
		m.drain()
		if err != nil {
			return viol("C17:reset-did-not-free-the-client", "%s: after ResetCollection(%s) removed the client, registering it in %q was refused: %v", a, c.coll, other, err)
		}
	}
	before := m.sys.DB.Dump()
	_, err := send(c.coll, d.rep.dt.CreatePushPullPack())
	m.last = fmt.Sprintf("ghost %s err=%v", a.K, err != nil)
	if err == nil {
		if a.K == "rejoin" {
			return viol("C17:foreign-collection-accepted:after-reset", "%s: the client is registered in %q now, its request naming %q was served", a, other, c.coll)
		}
		return viol("C17:client-removed-by-reset-still-served", "%s: ResetCollection(%s) removed the client, yet its next request was served without a new registration", a, c.coll)
	}
	if after := m.sys.DB.Dump(); after != before {
		return viol("C17:refused-request-after-reset-changed-store", "%s: refused (%v) but stored data changed; first difference at %s", a, err, firstDiff(after, before))
	}
	if a.K == "rejoin" {
		if _, err := send(other); err != nil {
			return viol("C17:client-refused-in-its-own-collection", "%s: the client registered in %q after the reset of %q, a request naming %q was refused: %v", a, other, c.coll, other, err)
		}
	}
	return nil
}

// readOnlyPull sends a request with the read-only option and no operations for datatype a.T in the name
// of client c (a reader following the datatype), from checkpoint 0 (a.P == 0) or from the end of the
// log (a.P == 1): it must be answered with exactly the stored operations behind the checkpoint.
func (m *e2Machine) readOnlyPull(c *e2client, a pt.Action) *pt.Violation {
	d := c.dts[a.T]
	var st *storedDT
	for _, s := range m.readStore() {
		if s.duid == d.rep.dt.GetDUID() {
			st = s
		}
	}
	if st == nil {
		m.last = "ropull: not stored"
		return nil
	}
	from := uint64(0)
	if a.P == 1 {
		from = st.end
	}
	own := d.rep.dt.CreatePushPullPack()
	opt := model.PushPullBitNormal
	pack := &model.PushPullPack{Key: a.T, DUID: st.duid, Type: own.Type, Era: own.Era, Option: uint32(*opt.SetReadOnlyBit()),
		CheckPoint: &model.CheckPoint{Sseq: from}}
	req := model.NewPushPullMessage(0, &model.Client{CUID: c.cuid, Collection: c.coll}, pack)
	var resp *model.PushPullMessage
	var err error
	if !callWithDeadline(func() {
		ctx, cancel := gocontext.WithCancel(gocontext.Background())
		defer cancel()
		b, _ := proto.Marshal(req)
		var in model.PushPullMessage
		proto.Unmarshal(b, &in)
		resp, err = m.sys.Svc().ProcessPushPull(ctx, &in)
	}) {
		exitWith(viol("C16:request-never-answered:ropull", "read-only pull %s never returned", a))
	}
	m.drain()
	m.last = fmt.Sprintf("ropull from=%d err=%v", from, err != nil)
	if err != nil || resp == nil || len(resp.PushPullPacks) != 1 {
		if m.p.Tolerant {
			return nil
		}
		return viol("C06:read-only-pull-refused", "%s: %v", a, err)
	}
	pk := resp.PushPullPacks[0]
	if pk.GetPushPullPackOption().HasErrorBit() {
		if m.p.Tolerant {
			return nil
		}
		return viol("C06:read-only-pull-refused", "%s answered with an error pack", a)
	}
	if uint64(len(pk.Operations)) != st.end-from {
		return viol("C06:read-only-pull-incomplete", "%s from checkpoint %d of a log ending at %d returned %d operations", a, from, st.end, len(pk.Operations))
	}
	if pk.CheckPoint == nil || pk.CheckPoint.Sseq != st.end {
		return viol("C06:read-only-pull-checkpoint", "%s from checkpoint %d of a log ending at %d answered checkpoint %v", a, from, st.end, pk.CheckPoint)
	}
	return nil
}

// ---------------------------------------------------------------------------------------------
// C11: stored snapshots and the user-visible document equal the log replay
// ---------------------------------------------------------------------------------------------

// replayReplica applies log[1..v] of a datatype to a fresh local replica (the reference for snapshots).
func (m *e2Machine) replayReplica(typ string, duid string, v uint64) (*Replica, error) {
	ops, _, err := m.sys.Repo.GetOperations(m.sys.Ctx, duid, 1, ^uint64(0))
	if err != nil {
		return nil, err
	}
	if uint64(len(ops)) > v { // (the repository's upper bound is not applied by its filter; cut here)
		ops = ops[:v]
	}
	if uint64(len(ops)) != v {
		return nil, fmt.Errorf("log of %s has %d operations up to position %d", duid, len(ops), v)
	}
	w := &World{P: WParams{Type: typ}, typ: typeOf(typ), log: ops}
	return w.ServerCopy(len(ops))
}

func typeName(t string) string {
	switch t {
	case "COUNTER":
		return "counter"
	case "MAP":
		return "map"
	case "LIST":
		return "list"
	}
	return "doc"
}

// normJSON renders a BSON/JSON value with all numbers as float64 and keys sorted.
func normJSON(v interface{}) string {
	var norm func(v interface{}) interface{}
	norm = func(v interface{}) interface{} {
		switch x := v.(type) {
		case bson.D:
			mm := map[string]interface{}{}
			for _, e := range x {
				mm[e.Key] = norm(e.Value)
			}
			return mm
		case bson.A:
			out := make([]interface{}, 0, len(x))
			for _, e := range x {
				out = append(out, norm(e))
			}
			return out
		case map[string]interface{}:
			mm := map[string]interface{}{}
			for k, e := range x {
				mm[k] = norm(e)
			}
			return mm
		case []interface{}:
			out := make([]interface{}, 0, len(x))
			for _, e := range x {
				out = append(out, norm(e))
			}
			return out
		case int32:
			return float64(x)
		case int64:
			return float64(x)
		case int:
			return float64(x)
		}
		return v
	}
	return jsonStr(norm(v))
}

// checkSnapshots: every stored snapshot (duid, v) equals replay(log[1..v]); the user document of a
// key is the JSON view of replay(log[1.._orda_ver_]); lastVer tracks that versions never decrease.
func (m *e2Machine) checkSnapshots() *pt.Violation {
	store := m.readStore()
	for _, sd := range m.sys.DB.Docs(schema.CollectionNameSnapshot) {
		duid, _ := getS(sd, "duid")
		v := asU64(getV(sd, "sseq"))
		dt := store[duid]
		if dt == nil {
			return viol("C11:snapshot-without-datatype", "snapshot %s:%d has no datatype document", duid, v)
		}
		typ := typeName(dt.typ)
		meta, _ := getS(sd, "meta")
		var snap []byte
		if b, ok := getV(sd, "snapshot").(primitive.Binary); ok {
			snap = b.Data
		}
		if v > uint64(len(dt.ops)) {
			return viol("C11:snapshot-beyond-log", "snapshot %s:%d but the log has %d operations", dt.key, v, len(dt.ops))
		}
		want, err := m.replayReplica(typ, duid, v)
		if err != nil {
			return viol("C11:log-not-replayable", "%v", err)
		}
		fresh := newReplica(70, typeOf(typ), true, 0)
		var perr interface{}
		var ierr error
		func() {
			defer func() { perr = recover() }()
			if e := fresh.dt.SetMetaAndSnapshot([]byte(meta), snap); e != nil {
				ierr = e
			}
		}()
		if perr != nil || ierr != nil {
			return viol("C11:snapshot-not-importable", "snapshot %s:%d cannot be imported: %v %v", dt.key, v, perr, ierr)
		}
		if a, b := fresh.View(), want.View(); a != b {
			return viol("C11:snapshot-differs-from-log-prefix:"+typ+":"+diffClass(b, a), "stored snapshot of %s at version %d:\n snapshot: %s\n replay of log[1..%d]: %s", dt.key, v, a, v, b)
		}
	}
	// user-visible documents
	for _, cd := range m.sys.DB.Docs(schema.CollectionNameCollections) {
		coll, _ := getS(cd, "_id")
		num, _ := getV(cd, "num").(int32)
		for _, ud := range m.sys.DB.Docs(coll) {
			key, _ := getS(ud, "_id")
			ver := asU64(getV(ud, "_orda_ver_"))
			var dt *storedDT
			for _, s := range store {
				if s.key == key && s.colNum == num {
					dt = s
				}
			}
			if dt == nil {
				return viol("C11:user-document-without-datatype", "user document %s/%s has no datatype", coll, key)
			}
			if ver > uint64(len(dt.ops)) {
				return viol("C11:user-document-version-beyond-log", "user document %s/%s records version %d, the log has %d operations", coll, key, ver, len(dt.ops))
			}
			typ := typeName(dt.typ)
			want, err := m.replayReplica(typ, dt.duid, ver)
			if err != nil {
				return viol("C11:log-not-replayable", "%v", err)
			}
			var body bson.D
			for _, e := range ud {
				if e.Key != "_id" && e.Key != "_orda_ver_" {
					body = append(body, e)
				}
			}
			// the document is bson.Marshal(datatype.ToJSON()); compare with the same marshalling of the replay
			wb, merr := bson.Marshal(want.dt.ToJSON())
			if merr != nil {
				continue
			}
			var wd bson.D
			bson.Unmarshal(wb, &wd)
			if a, b := normJSON(body), normJSON(wd); a != b {
				for _, e := range wd {
					if typ == "doc" && (e.Key == "_id" || e.Key == "_orda_ver_") {
						// the datatype's own members and the two fields the server adds share one document
						return viol("C11:user-document-loses-member-named-like-a-server-field:"+e.Key, "the document %s/%s has a member named %q, which is also a field the server sets in the user's collection: the user document at version %d reads %s, the JSON view of log[1..%d] is %s", coll, key, e.Key, ver, a, ver, b)
					}
				}
				return viol("C11:user-document-differs-from-log-prefix:"+typ, "user document %s/%s at version %d is %s, the JSON view of log[1..%d] is %s", coll, key, ver, a, ver, b)
			}
		}
	}
	return nil
}

// canonViewJSON canonicalizes the json= part of a document view.
func canonViewJSON(view string) string {
	if !strings.HasPrefix(view, "json=") {
		return view
	}
	i := strings.Index(view, " reads=")
	if i < 0 {
		return view
	}
	return "json=" + canonJSON(view[5:i]) + view[i:]
}
