package w

import (
	gocontext "context"
	"encoding/json"
	"fmt"
	"strings"
	"testing"
	"testing/synctest"
	"time"

	"github.com/orda-io/orda/client/pkg/model"
	"github.com/orda-io/orda/server/schema"
	"google.golang.org/protobuf/proto"

	"verif/h/pt"
)

// C16, the other three request kinds: every structurally valid ClientMessage / PatchMessage / CollectionMessage built
// by mutating a valid one (ids, names, enum values, JSON payloads) is answered (a response or an error) within the
// virtual deadline, never kills the server, a refusal leaves the store unchanged, an accepted request changes only what
// it may change (frame conditions per kind), and afterwards the correct clients continue and converge.
//
// Base state: collections col (client c0 holds the document k1 = {"a":{"x":..}}, client c1 the counter k2) and col2
// (empty).

type adminCase struct {
	name string
	kind string // client | patch | create | reset
	// the request
	client *model.ClientMessage
	patch  *model.PatchMessage
	coll   *model.CollectionMessage
}

const longName = "nnnnnnnnnnnnnnnnnnnnnnnnnnnnnnnnnnnnnnnnnnnnnnnnnnnnnnnnnnnnnnnnnnnnnnnnnnnnnnnnnnnnnnnnnnnnnnnnnnnnnnnnnnnnnnnnnnnnnnnnnnnnnnnnnnnnnnnnnnnnnnnn"

func adminCases(c0cuid, c1cuid string) []adminCase {
	var cs []adminCase
	cm := func(name string, f func(m *model.ClientMessage)) {
		m := model.NewClientMessage(&model.Client{CUID: "abcdefghijklmnop", Alias: "newcomer", Collection: "col", SyncType: model.SyncType_MANUALLY})
		f(m)
		cs = append(cs, adminCase{name: "client:" + name, kind: "client", client: m})
	}
	cm("valid-new", func(m *model.ClientMessage) {})
	cm("valid-again", func(m *model.ClientMessage) { m.Cuid = c0cuid; m.ClientAlias = "c0" })
	cm("collection-unknown", func(m *model.ClientMessage) { m.Collection = "nope" })
	cm("collection-empty", func(m *model.ClientMessage) { m.Collection = "" })
	cm("collection-internal", func(m *model.ClientMessage) { m.Collection = schema.CollectionNameClients })
	cm("cuid-empty", func(m *model.ClientMessage) { m.Cuid = "" })
	cm("cuid-short", func(m *model.ClientMessage) { m.Cuid = "abc" })
	cm("cuid-long", func(m *model.ClientMessage) { m.Cuid = longName })
	cm("cuid-odd-characters", func(m *model.ClientMessage) { m.Cuid = "a/b:c$d.e f\x00g h" })
	cm("cuid-of-client-in-same-collection", func(m *model.ClientMessage) { m.Cuid = c1cuid })
	cm("cuid-of-other-collection-client", func(m *model.ClientMessage) { m.Cuid = c0cuid; m.Collection = "col2" })
	cm("alias-empty", func(m *model.ClientMessage) { m.ClientAlias = "" })
	cm("alias-long-unicode", func(m *model.ClientMessage) { m.ClientAlias = strings.Repeat("\U0001F600é", 300) })
	cm("header-nil", func(m *model.ClientMessage) { m.Header = nil })
	cm("header-version-empty", func(m *model.ClientMessage) { m.Header.Version = "" })
	cm("header-type-pushpull", func(m *model.ClientMessage) { m.Header.Type = model.RequestType_PUSHPULLS })
	for _, ct := range []int32{1, 2, 3, 99, -1} {
		ct := ct
		cm(fmt.Sprintf("client-type-%d", ct), func(m *model.ClientMessage) { m.ClientType = model.ClientType(ct) })
	}
	for _, st := range []int32{1, 2, 3, 99, -1} {
		st := st
		cm(fmt.Sprintf("sync-type-%d", st), func(m *model.ClientMessage) { m.SyncType = model.SyncType(st) })
	}
	pm := func(name, coll, key, js string) {
		cs = append(cs, adminCase{name: "patch:" + name, kind: "patch", patch: &model.PatchMessage{Collection: coll, Key: key, Json: js}})
	}
	pm("valid-existing", "col", "k1", `{"a":{"x":1},"b":[1,2]}`)
	pm("document-created-without-operations", "col", "emptylog", `{"a":1,"b":2}`) // (the setup creates "emptylog" with the create bit and no operations)
	pm("valid-new-key", "col", "fresh", `{"n":{"m":[true,"s",1.5]}}`)
	pm("valid-same-as-stored", "col", "k1", `{"a":{"x":"p0"}}`)
	pm("valid-empty-object", "col", "k1", `{}`)
	pm("valid-in-empty-collection", "col2", "k1", `{"z":1}`)
	pm("collection-unknown", "nope", "k1", `{"a":1}`)
	pm("collection-empty", "", "k1", `{"a":1}`)
	pm("collection-internal", schema.CollectionNameDatatypes, "k1", `{"a":1}`)
	pm("key-empty", "col", "", `{"a":1}`)
	pm("key-of-a-counter", "col", "k2", `{"a":1}`)
	pm("key-odd-characters", "col", "a/b~c$d.e \x00 ", `{"a":1}`)
	pm("key-long", "col", longName, `{"a":1}`)
	pm("json-empty", "col", "k1", ``)
	pm("json-syntax-error", "col", "k1", `{"a":`)
	pm("json-array", "col", "k1", `[1,2]`)
	pm("json-string", "col", "k1", `"s"`)
	pm("json-number", "col", "k1", `1`)
	pm("json-null", "col", "k1", `null`)
	pm("json-null-member", "col", "k1", `{"a":null}`)
	pm("json-null-in-array", "col", "k1", `{"a":[1,null]}`)
	pm("json-duplicate-keys", "col", "k1", `{"a":1,"a":2}`)
	pm("json-keys-needing-escapes", "col", "k1", `{"a/b":1,"~k":{"~1":2},"":3}`)
	pm("json-deep", "col", "k1", strings.Repeat(`{"d":`, 40)+`1`+strings.Repeat(`}`, 40))
	pm("json-big-number", "col", "k1", `{"n":123456789012345678901234567890,"f":1e400}`)
	pm("json-trailing-garbage", "col", "k1", `{"a":1} x`)
	mk := func(kind, name, coll string) {
		cs = append(cs, adminCase{name: kind + ":" + name, kind: kind, coll: &model.CollectionMessage{Collection: coll}})
	}
	mk("create", "valid-new", "col3")
	mk("create", "existing", "col")
	mk("create", "empty-name", "")
	mk("create", "internal-clients", schema.CollectionNameClients)
	mk("create", "internal-operations", schema.CollectionNameOperations)
	mk("create", "internal-collections", schema.CollectionNameCollections)
	mk("create", "internal-datatypes", schema.CollectionNameDatatypes)
	mk("create", "internal-snapshots", schema.CollectionNameSnapshot)
	mk("create", "internal-number-generator", schema.CollectionNameColNumGenerator)
	mk("create", "internal-prefix-only", "-_-")
	mk("create", "internal-prefix-other", "-_-Mine")
	mk("create", "odd-characters", "a.b$c d ")
	mk("create", "system-prefix", "system.indexes")
	mk("create", "nul-character", "a\x00b")
	mk("create", "long-name", longName)
	mk("reset", "valid-empty-collection", "col2")
	mk("reset", "valid-used-collection", "col")
	mk("reset", "unknown", "nope")
	mk("reset", "empty-name", "")
	mk("reset", "internal-clients", schema.CollectionNameClients)
	mk("reset", "internal-datatypes", schema.CollectionNameDatatypes)
	mk("reset", "internal-collections", schema.CollectionNameCollections)
	mk("reset", "internal-operations", schema.CollectionNameOperations)
	mk("reset", "internal-snapshots", schema.CollectionNameSnapshot)
	mk("reset", "internal-number-generator", schema.CollectionNameColNumGenerator)
	return cs
}

func canonJSONStr(s string) (string, bool) {
	var v interface{}
	if json.Unmarshal([]byte(s), &v) != nil {
		return "", false
	}
	return jsonStr(v), true
}

func c16AdminCase(t *testing.T, name string) (res c16Result) {
	res.Name = name
	synctest.Test(t, func(t *testing.T) {
		pp, _ := json.Marshal(E2Params{Clients: 2, Type: "doc", Types: []string{"doc", "counter"}, Keys: []string{"k1", "k2"}, Colls: []string{"col"}})
		m := newE2(pp)
		defer m.Shutdown()
		if m.fatal != nil {
			res.Viol = m.fatal
			return
		}
		m.sys.MakeCollection("col2")
		for _, a := range []pt.Action{{Op: "open", R: 0, T: "k1", K: "soc"}, {Op: "sync", R: 0}, {Op: "open", R: 1, T: "k2", K: "soc"}, {Op: "sync", R: 1},
			{Op: "dput", R: 0, K: "a", V: "o", T: "k1|"}, {Op: "sync", R: 0}, {Op: "inc", R: 1, P: 1, T: "k2|"}, {Op: "sync", R: 1}} {
			if v := safeApply(m, a); v != nil {
				v.Sig = "E2:harness:c16-admin-setup:" + v.Sig
				res.Viol = v
				return
			}
		}
		c0, c1 := m.cls[0], m.cls[1]
		var ac *adminCase
		for _, c := range adminCases(c0.cuid, c1.cuid) {
			if c.name == name {
				c := c
				ac = &c
			}
		}
		if ac == nil {
			res.Viol = viol("E2:harness:unknown-admin-case", "%s", name)
			return
		}
		if ac.name == "patch:valid-same-as-stored" {
			ac.patch.Json = jsonStr(c0.dts["k1"].rep.doc.GetValue())
		}
		if ac.name == "patch:document-created-without-operations" {
			// a datatype document with an empty log: a creation request that carries no operation at all
			own := c0.dts["k1"].rep.dt.CreatePushPullPack()
			pack := &model.PushPullPack{Key: "emptylog", DUID: "emptylogemptylog", Type: own.Type, Era: own.Era, Option: 0x01, CheckPoint: &model.CheckPoint{}}
			req := model.NewPushPullMessage(0, &model.Client{CUID: c0.cuid, Collection: c0.coll}, pack)
			callWithDeadline(func() {
				ctx, cancel := gocontext.WithCancel(gocontext.Background())
				defer cancel()
				m.sys.Svc().ProcessPushPull(ctx, req)
			})
			m.drain()
		}
		time.Sleep(time.Millisecond)
		before := m.sys.DB.Dump()
		projBefore := map[string]string{}
		for _, cn := range []string{"col", "col2"} {
			projBefore[cn] = m.projection(cn)
		}
		var err error
		var patchResp *model.PatchMessage
		t0 := time.Now()
		if !callWithDeadline(func() {
			ctx, cancel := gocontext.WithCancel(gocontext.Background())
			defer cancel()
			switch ac.kind {
			case "client":
				b, _ := proto.Marshal(ac.client)
				var in model.ClientMessage
				proto.Unmarshal(b, &in)
				if ac.client.Header == nil {
					in.Header = nil
				}
				_, err = m.sys.Svc().ProcessClient(ctx, &in)
			case "patch":
				b, _ := proto.Marshal(ac.patch)
				var in model.PatchMessage
				proto.Unmarshal(b, &in)
				patchResp, err = m.sys.Svc().PatchDocument(ctx, &in)
			case "create":
				_, err = m.sys.Svc().CreateCollection(ctx, &model.CollectionMessage{Collection: ac.coll.Collection})
			case "reset":
				_, err = m.sys.Svc().ResetCollection(ctx, &model.CollectionMessage{Collection: ac.coll.Collection})
			}
		}) {
			exitWith(viol("C16:request-never-answered:"+name, "the request %s was never answered", name))
		}
		took := time.Since(t0)
		m.drain()
		after := m.sys.DB.Dump()
		res.Outcome = fmt.Sprintf("err=%v changed=%v", err != nil, before != after)
		if ac.kind == "patch" && err == nil && patchResp == nil {
			res.Viol = viol("C16:request-answered-with-neither-response-nor-error:"+name, "the request %s returned neither a response nor an error", name)
			return
		}
		if took >= 3*time.Second {
			res.Viol = viol("C16:answered-only-after-a-lock-lease:"+name, "the lone request %s was answered after %v of virtual time (lock lease is 5s)", name, took)
			return
		}
		if err != nil && before != after {
			res.Viol = viol("C16:refused-request-changed-store:"+name, "request %s was refused (%v) but stored data changed; first difference at %s", name, err, firstDiff(after, before))
			return
		}
		if v := m.checkCollections(); v != nil {
			v.Sig += ":after:" + name
			res.Viol = v
			return
		}
		// frame conditions of accepted requests
		if err == nil {
			switch ac.kind {
			case "client":
				// only the clients' registry may change, and only the document of the named client
				for _, cn := range []string{schema.CollectionNameDatatypes, schema.CollectionNameOperations, schema.CollectionNameSnapshot, schema.CollectionNameCollections, "col", "col2"} {
					if a, b := strings.Join(m.sys.DB.DumpColl(cn, nil), "\n"), dumpCollOf(before, cn); a != b && b != "\x00" {
						res.Viol = viol("C16:client-registration-changed-other-data:"+name, "ProcessClient(%s) changed collection %s", name, cn)
						return
					}
				}
				for _, d := range m.sys.DB.Docs(schema.CollectionNameClients) {
					id, _ := getS(d, "_id")
					if id != ac.client.Cuid && !strings.Contains(before, id) {
						res.Viol = viol("C16:client-registration-created-foreign-client:"+name, "ProcessClient(%s) created the client document %q", name, id)
						return
					}
				}
			case "patch":
				want, okw := canonJSONStr(ac.patch.Json)
				var got string
				var okg bool
				if patchResp != nil {
					got, okg = canonJSONStr(patchResp.Json)
				}
				if okw && strings.HasPrefix(want, "{") && !strings.Contains(ac.name, "null") && !strings.Contains(ac.name, "internal-field") && !strings.Contains(ac.name, "big-number") {
					if !okg || got != want {
						res.Viol = viol("C19:rest-patch-response-differs:"+name, "PatchDocument(%s) answered %s, the target was %s", name, clip(got, 300), clip(want, 300))
						return
					}
				}
				other := "col2"
				if ac.patch.Collection == "col2" {
					other = "col"
				}
				if m.projection(other) != projBefore[other] {
					res.Viol = viol("C17:foreign-collection-changed:patch:"+name, "PatchDocument(%s) changed collection %s", name, other)
					return
				}
			case "create":
				for _, cn := range []string{"col", "col2"} {
					if m.projection(cn) != projBefore[cn] {
						res.Viol = viol("C17:foreign-collection-changed:create:"+name, "CreateCollection(%q) changed collection %s", ac.coll.Collection, cn)
						return
					}
				}
			case "reset":
				for _, cn := range []string{"col", "col2"} {
					if cn != ac.coll.Collection && m.projection(cn) != projBefore[cn] {
						res.Viol = viol("C17:foreign-collection-changed:reset:"+name, "ResetCollection(%q) changed collection %s", ac.coll.Collection, cn)
						return
					}
				}
			}
		}
		if ac.kind == "reset" && err == nil && ac.coll.Collection == "col" {
			// nothing of col may remain (its clients are gone with it: no continuation)
			for _, l := range strings.Split(m.projection("col"), "\n") {
				if strings.TrimSpace(l) != "" && !strings.HasPrefix(l, "## ") {
					res.Viol = viol("C17:reset-left-documents:"+name, "after ResetCollection(col) the store still holds a document of it: %s", clip(l, 300))
				}
			}
			return
		}
		if ac.kind == "create" || ac.kind == "reset" {
			// administration goes on: two more collections can be created, and every collection has a number of its own
			for _, later := range []string{"colLater1", "colLater2"} {
				if later == "colLater2" {
					// the server is stopped and started again over the same database before the second creation
					m.sys.StopServer()
					if serr := m.sys.StartServer(); serr != nil {
						res.Viol = viol("C08:server-does-not-restart:"+name, "after the request %s the server does not start again: %v", name, serr)
						return
					}
				}
				if lerr := m.sys.MakeCollection(later); lerr != nil {
					res.Viol = viol("C17:collection-cannot-be-created-after:"+name, "CreateCollection(%s) after the request %s: %v", later, name, lerr)
					return
				}
				if v := m.checkCollections(); v != nil {
					v.Sig += ":after:" + name
					res.Viol = v
					return
				}
			}
		}
		if v := m.checkLog(); v != nil {
			v.Sig += ":after:" + name
			res.Viol = v
			return
		}
		if v := m.checkSnapshots(); v != nil {
			v.Sig += ":after:" + name
			res.Viol = v
			return
		}
		// the keys stay usable. First for the REST endpoint: a valid patch of the document, and a patch of the key the request
		// named, are answered at once (a lock that a refused request left behind would make them wait for its lease)
		if ac.kind == "patch" || ac.kind == "client" {
			follow := []*model.PatchMessage{{Collection: "col", Key: "k1", Json: `{"after":{"x":1},"l":[1,2]}`}}
			if ac.kind == "patch" && ac.patch.Collection == "col" && ac.patch.Key != "k1" && ac.patch.Key != "" {
				follow = append(follow, &model.PatchMessage{Collection: "col", Key: ac.patch.Key, Json: `{"again":true}`})
			}
			for i, fm := range follow {
				var ferr error
				var fresp *model.PatchMessage
				f0 := time.Now()
				if !callWithDeadline(func() {
					ctx, cancel := gocontext.WithCancel(gocontext.Background())
					defer cancel()
					fresp, ferr = m.sys.Svc().PatchDocument(ctx, fm)
				}) {
					exitWith(viol("C16:request-never-answered:patch-after:"+name, "a patch of %s/%s after the request %s was never answered", fm.Collection, fm.Key, name))
				}
				ftook := time.Since(f0)
				m.drain()
				if ftook >= 3*time.Second {
					res.Viol = viol("C16:answered-only-after-a-lock-lease:patch-after:"+name, "after the request %s a patch of %s/%s was answered only after %v of virtual time (err=%v): the key's patch lock was left behind", name, fm.Collection, fm.Key, ftook, ferr)
					return
				}
				if i == 0 {
					if ferr != nil {
						res.Viol = viol("C16:valid-patch-refused-after:"+name, "after the request %s a valid patch of col/k1 is refused: %v", name, ferr)
						return
					}
					if got, ok := canonJSONStr(fresp.Json); !ok || got != canonJSON(fm.Json) {
						res.Viol = viol("C19:rest-patch-response-differs:after:"+name, "after the request %s the valid patch of col/k1 answered %s", name, clip(fresp.Json, 300))
						return
					}
				}
			}
		}
		// then for the clients: they continue and converge
		m.oracles["converge"] = true
		for _, a := range []pt.Action{{Op: "dput", R: 0, K: "c", V: "p", T: "k1|"}, {Op: "inc", R: 1, P: 1, T: "k2|"}} {
			if v := safeApply(m, a); v != nil {
				v.Sig += ":after:" + name
				res.Viol = v
				return
			}
		}
		if v := safeClose(m); v != nil {
			v.Sig += ":after:" + name
			res.Viol = v
			return
		}
		if v := m.checkLog(); v != nil {
			v.Sig += ":after:" + name
			res.Viol = v
		}
	})
	return
}

// dumpCollOf extracts one collection's section from a whole-database dump ("\x00" if the dump has no such section).
func dumpCollOf(dump, coll string) string {
	hdr := "## " + coll + "\n"
	i := strings.Index(dump, hdr)
	if i < 0 {
		return "\x00"
	}
	rest := dump[i+len(hdr):]
	if j := strings.Index(rest, "\n## "); j >= 0 {
		rest = rest[:j]
	}
	return strings.TrimRight(rest, "\n")
}

func init() {
	jobKinds["mutadmin"] = func(job *pt.Job, emit func(pt.Line, bool)) {
		cases := adminCases("0000000000000000", "1111111111111111")
		var ex struct {
			Skip []int `json:"skip"`
		}
		json.Unmarshal(job.Extra, &ex)
		skip := map[int]bool{}
		for _, k := range ex.Skip {
			skip[k] = true
		}
		for i, c := range cases {
			if (job.Shards > 0 && i%job.Shards != job.Shard) || skip[i] {
				continue
			}
			ii := i
			eb, _ := json.Marshal(map[string]interface{}{"admin_case": c.name})
			emit(pt.Line{Start: &ii, I: i, Info: eb}, true)
			curCase = i
			r := c16AdminCase(curT, c.name)
			co := pt.CaseOut{Name: r.Name, Outcome: r.Outcome, Transitions: 1, Viol: r.Viol, Extra: eb}
			b, _ := json.Marshal(co)
			emit(pt.Line{I: i, Done: true, Info: b}, false)
		}
		b, _ := json.Marshal(pt.ShardInfo{Exhaustive: true})
		emit(pt.Line{I: -1, Done: true, Info: b}, true)
	}
	jobKinds["mutadmin-replay"] = func(job *pt.Job, emit func(pt.Line, bool)) {
		var ex struct {
			Case string `json:"admin_case"`
		}
		json.Unmarshal(job.Extra, &ex)
		r := c16AdminCase(curT, ex.Case)
		b, _ := json.Marshal(ReplayInfo{Steps: []string{r.Name + " -> " + r.Outcome}, Viol: r.Viol})
		emit(pt.Line{Done: true, Info: b}, true)
	}
}
