package w

import (
	"bytes"
	gocontext "context"
	"encoding/json"
	"fmt"
	"runtime"
	"sort"
	"strconv"
	"strings"
	"sync"
	"sync/atomic"
	"testing"
	"testing/synctest"

	"github.com/orda-io/orda/client/pkg/model"
	"github.com/orda-io/orda/client/pkg/orda"
	"github.com/orda-io/orda/client/pkg/verifrt"
	"github.com/orda-io/orda/client/pkg/verifrt/vsync"
	"github.com/orda-io/orda/server/schema"

	"verif/h/pt"
)

// e2SchedArgs describes a whole-system concurrency scenario: a sequential setup, then concurrent
// activities explored by the schedule search, then the fault-free closure with oracles.
type e2SchedArgs struct {
	E2         E2Params    `json:"e2"`
	Setup      []pt.Action `json:"setup"`
	Conc       []pt.Action `json:"conc"`        // each runs as one activity
	AtPoint    []string    `json:"at_point"`    // oracles evaluated at every decision point: snapshots
	AtEnd      []string    `json:"at_end"`      // oracles at the end (after closure): log converge applied issued reference snapshots onedoc quiescent
	NoClose    bool        `json:"no_close"`    // do not run closing syncs (realtime convergence must happen by itself)
	Policy     schedPolicy `json:"policy"`      // default schedule around which deviations are counted
	GiveUps    int         `json:"give_ups"`    // how often a caller may give up (cancel its context) in the middle of a push-pull call
	RepoPoints bool        `json:"repo_points"` // statements of the repository layer (server/mongodb) are scheduling points
	FailLabel  string      `json:"fail_label"`  // one database command fails during the concurrent part: the FailNth-th one with this label ("insert:-_-Snapshots")
	FailNth    int         `json:"fail_nth"`
}

// callers whose map iterations run in reversed key order (see verifrt.OrderHook)
var (
	reversedCallers sync.Map // goroutine id -> true
	nReversed       atomic.Int32
)

func goid() int64 {
	buf := make([]byte, 64)
	buf = buf[:runtime.Stack(buf, false)]
	f := bytes.Fields(buf)
	id, _ := strconv.ParseInt(string(f[1]), 10, 64)
	return id
}

func init() {
	verifrt.OrderHook = func(site string) (int32, bool) {
		if nReversed.Load() == 0 {
			return 0, false
		}
		if _, ok := reversedCallers.Load(goid()); ok {
			return verifrt.Reversed, true
		}
		return 0, false
	}
}

// rawRequest performs the request of action a without any harness-side waiting (it runs inside an activity).
func (m *e2Machine) rawRequest(a pt.Action, errs *[]string, mu *sync.Mutex) {
	c := m.cls[a.R]
	note := func(s string) {
		mu.Lock()
		*errs = append(*errs, s)
		mu.Unlock()
	}
	switch a.Op {
	case "seq":
		for _, sub := range a.Sub {
			m.rawRequest(sub, errs, mu)
		}
	case "sync":
		if a.K == "rev" { // this call names its datatypes in the opposite order (Go's map order is free to do so)
			id := goid()
			reversedCallers.Store(id, true)
			nReversed.Add(1)
			defer func() { reversedCallers.Delete(id); nReversed.Add(-1) }()
		}
		err := c.h.C.Sync()
		if err != nil {
			note(fmt.Sprintf("c%d sync: %v", a.R, err))
		}
		if err == nil && a.V != "" {
			// Sync() returned without an error: what this goroutine had issued before calling it is on the server
			// (a.V names the counter delta of its operation)
			found := false
			for _, dt := range m.readStore() {
				for _, op := range dt.ops {
					if op.cuid == c.cuid && strings.Contains(op.body, `"Delta":`+a.V+`}`) {
						found = true
					}
				}
			}
			if !found {
				mu.Lock()
				m.syncLost = append(m.syncLost, fmt.Sprintf("client %d: Sync() returned nil, but the operation (delta %s) this goroutine issued before calling it is not stored", a.R, a.V))
				mu.Unlock()
			}
		}
	case "openonly": // the entry of a realtime client: nothing but the call itself, the client delivers it
		d := m.openDatatype(c, a.T, a.K, c.typ)
		if d != nil {
			mu.Lock()
			c.dts[a.T] = d
			mu.Unlock()
		}
	case "opensync":
		d := m.openDatatype(c, a.T, a.K, c.typ)
		if d != nil {
			mu.Lock()
			c.dts[a.T] = d
			mu.Unlock()
		}
		if err := c.h.C.Sync(); err != nil {
			note(fmt.Sprintf("c%d sync: %v", a.R, err))
		}
	case "patch":
		existed := false
		for _, dt := range m.readStore() {
			if dt.key == a.T && len(dt.ops) > 0 {
				existed = true
			}
		}
		resp, err := m.sys.Svc().PatchDocument(gocontext.Background(), &model.PatchMessage{Collection: c.coll, Key: a.T, Json: a.V})
		if err == nil && resp == nil {
			mu.Lock()
			m.syncLost = append(m.syncLost, fmt.Sprintf("PatchDocument(%s, %s) returned neither a response nor an error", a.T, a.V))
			mu.Unlock()
			return
		}
		if err != nil {
			note(fmt.Sprintf("patch: %v", err))
			if existed {
				mu.Lock()
				m.patchRefused = append(m.patchRefused, fmt.Sprintf("PatchDocument(%s, %s): %v", a.T, a.V, err))
				mu.Unlock()
			}
		} else {
			mu.Lock()
			m.patched = append(m.patched, patchDone{coll: c.coll, key: a.T, target: a.V, answer: resp.GetJson()})
			mu.Unlock()
		}
	case "mkcoll": // CreateCollection(a.T) as an administrator would call it, possibly several at once
		if err := m.sys.MakeCollection(a.T); err != nil {
			note(fmt.Sprintf("create collection %s: %v", a.T, err))
		}
	case "resetcoll":
		if _, err := m.sys.Svc().ResetCollection(gocontext.Background(), &model.CollectionMessage{Collection: a.T}); err != nil {
			note(fmt.Sprintf("reset collection %s: %v", a.T, err))
		}
	case "connect":
		_, err := m.sys.Svc().ProcessClient(gocontext.Background(), model.NewClientMessage(&model.Client{CUID: c.cuid, Alias: "re", Collection: c.coll}))
		if err != nil {
			note(fmt.Sprintf("connect: %v", err))
		}
	case "txabort":
		// a transaction whose body issues one operation, then does something that takes its time (a scheduling point:
		// anything else may run meanwhile), then fails: it is rolled back and leaves nothing to deliver
		key, _ := splitT(a.T)
		d := c.dts[key]
		if d.rep.cnt == nil {
			note("txabort: counter only")
			return
		}
		err := d.rep.cnt.Transaction("aborted", func(ct orda.CounterInTx) error {
			ct.IncreaseBy(100)
			m.sys.Sched.Gate("in-transaction")
			return fmt.Errorf("the application gives up")
		})
		if err == nil {
			note("txabort: the failing transaction reported no error")
		}
	default: // a local operation (realtime clients push it by themselves)
		key, path := splitT(a.T)
		d := c.dts[key]
		la := a
		la.T, la.R = path, 0
		w := &World{P: WParams{Type: c.typ}, typ: typeOf(c.typ), reps: []*Replica{d.rep}}
		if out := w.Local(la); out.Panic != "" || out.Err != "" {
			note(fmt.Sprintf("c%d local %s: %s %s", a.R, a.Op, out.Err, out.Panic))
		}
	}
}

func init() {
	schedScenarios["e2"] = func(args json.RawMessage) schedScenario {
		var sa e2SchedArgs
		json.Unmarshal(args, &sa)
		has0 := func(list []string, s string) bool {
			for _, e := range list {
				if e == s {
					return true
				}
			}
			return false
		}
		// "serial": what the same requests answer and store when made one at a time, in every order (computed once)
		// (per datatype key: the lock that serializes is per key, a message of several packs is not one atomic request)
		type serialOutcome struct {
			order []int
			byKey map[string]string // key -> answers of every client for that key + stored datatype document and operations
		}
		var serial []serialOutcome
		outcomeByKey := func(m *e2Machine) map[string]string {
			res := map[string]string{}
			keys := map[string]bool{"": true}
			for _, k := range m.p.Keys {
				keys[k] = true
			}
			for k := range keys {
				var sb strings.Builder
				for _, c := range m.cls {
					fmt.Fprintf(&sb, "%s:", c.h.Name)
					for _, a := range c.h.Stub.Answers {
						if v, ok := a[k]; ok {
							fmt.Fprintf(&sb, " %s ;", v)
						}
					}
					sb.WriteString("\n")
				}
				if k != "" {
					for _, dt := range m.readStore() {
						if dt.key != k {
							continue
						}
						cl := make([]string, 0, len(dt.clients))
						for cu, cp := range dt.clients {
							cl = append(cl, fmt.Sprintf("%s=%d:%d", cu, cp[0], cp[1]))
						}
						sort.Strings(cl)
						fmt.Fprintf(&sb, "stored %s/%d %s %s end=%d clients=%v ops=", dt.key, dt.colNum, dt.duid, dt.typ, dt.end, cl)
						for _, op := range dt.ops {
							fmt.Fprintf(&sb, "(%d %s:%d %s %s)", op.sseq, op.cuid, op.seq, op.typ, op.body)
						}
						sb.WriteString("\n")
					}
				}
				res[k] = sb.String()
			}
			return res
		}
		var prepare func(t *testing.T)
		if has0(sa.AtEnd, "serial") {
			prepare = func(t *testing.T) {
				if serial != nil {
					return
				}
				var perms [][]int
				var rec func(cur []int, used []bool)
				rec = func(cur []int, used []bool) {
					if len(cur) == len(sa.Conc) {
						perms = append(perms, append([]int{}, cur...))
						return
					}
					for i := range sa.Conc {
						if !used[i] {
							used[i] = true
							rec(append(cur, i), used)
							used[i] = false
						}
					}
				}
				rec(nil, make([]bool, len(sa.Conc)))
				for _, perm := range perms {
					perm := perm
					synctest.Test(t, func(t *testing.T) {
						resetUIDs()
						pp, _ := json.Marshal(sa.E2)
						m := newE2(pp)
						defer m.Shutdown()
						var errs []string
						var mu sync.Mutex
						for _, a := range sa.Setup {
							safeApply(m, a)
						}
						for _, c := range m.cls {
							c.h.Stub.Answers = nil
						}
						for _, i := range perm {
							m.rawRequest(sa.Conc[i], &errs, &mu)
							m.drain()
						}
						serial = append(serial, serialOutcome{order: perm, byKey: outcomeByKey(m)})
					})
				}
			}
		}
		return schedScenario{name: "e2", prepare: prepare, build: func(x *schedExec) ([]activity, func() *pt.Violation, func() *pt.Violation, func()) {
			pp, _ := json.Marshal(sa.E2)
			m := newE2(pp)
			m.schedMode = true
			x.sched = m.sys.Sched
			x.policy = sa.Policy
			if sa.GiveUps > 0 {
				x.giveUps = sa.GiveUps
				x.inflight = func() []string {
					var out []string
					for _, c := range m.cls {
						if c.h.Stub.Inflight() {
							out = append(out, c.h.Name)
						}
					}
					return out
				}
				x.giveUp = func(name string) {
					for _, c := range m.cls {
						if c.h.Name == name {
							c.h.Stub.GiveUp()
						}
					}
				}
			}
			// the lock registry's sync.Map operations are scheduling points too
			allSync := sa.E2.SyncType == "realtime"
			vsync.Hook = func(p string) {
				if allSync || strings.HasPrefix(p, "map.") {
					m.sys.Sched.Gate("sync." + p)
				}
			}
			verifrt.GoHook = func(site string) { m.sys.Sched.Gate("go:" + site) }
			verifrt.PointHook = nil
			if sa.FailLabel != "" {
				m.sys.DB.SetFailNth(sa.FailLabel, sa.FailNth)
			}
			if sa.RepoPoints {
				// the repository layer's statements are scheduling points too (between building a command's arguments and issuing it)
				verifrt.PointHook = func(site string) {
					if strings.HasPrefix(site, "mongodb/") {
						m.sys.Sched.Gate("pt:" + site)
					}
				}
			}
			var errs []string
			var mu sync.Mutex
			var setupViol *pt.Violation
			if m.fatal != nil {
				setupViol = m.fatal
			}
			for _, a := range sa.Setup {
				if setupViol == nil {
					setupViol = safeApply(m, a)
				}
			}
			for _, c := range m.cls {
				c.h.Stub.Answers = nil
				c.h.Stub.Pushes = nil
			}
			pubs0 := len(m.sys.Broker.Snapshot())
			writes0 := len(m.sys.DB.Writes)
			if sa.E2.SyncType == "realtime" {
				m.sys.Broker.Auto = true
			}
			var acts []activity
			if setupViol == nil {
				for i, a := range sa.Conc {
					a := a
					acts = append(acts, activity{name: fmt.Sprintf("a%d-%s-c%d", i, a.Op, a.R), f: func() { m.rawRequest(a, &errs, &mu) }})
				}
			}
			has := func(list []string, s string) bool {
				for _, e := range list {
					if e == s {
						return true
					}
				}
				return false
			}
			lastVer := map[string]uint64{}
			atPoint := func() *pt.Violation {
				if setupViol != nil {
					return setupViol
				}
				if has(sa.AtPoint, "log") {
					// the log invariants bind whenever no request is being served, whatever background work of earlier
					// requests is still pending or half done
					serving := false
					for _, c := range m.cls {
						if c.h.Stub.Inflight() {
							serving = true
						}
					}
					if !serving {
						if v := m.checkLog(); v != nil {
							v.Sig += ":between-requests"
							return v
						}
					}
				}
				if has(sa.AtPoint, "snapshots") {
					if v := m.checkSnapshots(); v != nil {
						return v
					}
					// recorded versions never decrease
					for _, cd := range m.sys.DB.Docs(schema.CollectionNameCollections) {
						coll, _ := getS(cd, "_id")
						for _, ud := range m.sys.DB.Docs(coll) {
							key, _ := getS(ud, "_id")
							ver := asU64(getV(ud, "_orda_ver_"))
							if ver < lastVer[coll+"/"+key] {
								return viol("C11:user-document-version-decreased", "user document %s/%s went from version %d back to %d", coll, key, lastVer[coll+"/"+key], ver)
							}
							lastVer[coll+"/"+key] = ver
						}
					}
				}
				return nil
			}
			atEnd := func() *pt.Violation {
				for _, o := range sa.AtEnd {
					m.oracles[o] = true
				}
				if has(sa.AtEnd, "announced") {
					// every pack that carried operations and was accepted is announced exactly once, on the topic of its collection and
					// key, with the pusher's id, the datatype id and the end of the log its answer reported - in whatever order; nothing
					// else is published (checked before any closing sync)
					// (what was stored is read from the database's write log: one insert command into the operations collection = one push
					// that stored operations; a request that re-sends acknowledged operations, or a subscriber's discarded provisional
					// operation, stores nothing and is not announced)
					want := map[string]int{}
					store := m.readStore()
					collName := map[int32]string{}
					for _, cd := range m.sys.DB.Docs(schema.CollectionNameCollections) {
						n, _ := getS(cd, "_id")
						if num, ok := getV(cd, "num").(int32); ok {
							collName[num] = n
						}
					}
					type grp struct {
						duid, cuid string
						max        uint64
					}
					groups := map[int]*grp{}
					var order []int
					for _, wr := range m.sys.DB.Writes[writes0:] {
						if wr.Cmd != "insert" || wr.Coll != schema.CollectionNameOperations || wr.Doc == nil {
							continue
						}
						g := groups[wr.N]
						if g == nil {
							g = &grp{}
							groups[wr.N] = g
							order = append(order, wr.N)
						}
						g.duid, _ = getS(wr.Doc, "duid")
						g.cuid, _ = getS(getD(wr.Doc, "id"), "cuid")
						if s := asU64(getV(wr.Doc, "sseq")); s > g.max {
							g.max = s
						}
					}
					for _, n := range order {
						g := groups[n]
						dt := store[g.duid]
						if dt == nil {
							continue
						}
						// committed: the recorded end of the log covers it and the operation is still the one at its place (an
						// insert whose commit failed half-way - e.g. its caller gave up - is not a stored push: the next push
						// overwrites it)
						if dt.end < g.max || int(g.max) > len(dt.ops) || dt.ops[g.max-1].cuid != g.cuid {
							continue
						}
						want[collName[dt.colNum]+"/"+dt.key+" "+canonJSON(jsonStr(model.Notification{CUID: g.cuid, DUID: g.duid, Sseq: g.max}))]++
					}
					got := map[string]int{}
					for _, p := range m.sys.Broker.Snapshot()[pubs0:] {
						got[p.Topic+" "+canonJSON(p.Payload)]++
					}
					for k, n := range want {
						if got[k] != n {
							return viol("C18:push-not-announced", "accepted push %s was announced %d times (expected %d); published: %v; schedule %v", k, got[k], n, got, x.trace)
						}
					}
					for k, n := range got {
						if want[k] != n {
							return viol("C18:unexpected-notification", "notification %s published %d times, %d accepted pushes match it; schedule %v", k, n, want[k], x.trace)
						}
					}
				}
				if has(sa.AtEnd, "serial") && len(serial) > 0 {
					// before any closing sync: answers and stored log state equal those of SOME one-at-a-time order. Not judged
					// when a lock lease ran out or a caller gave up (a request refused for waiting too long, or abandoned, has
					// no counterpart in a one-at-a-time execution).
					judged := true
					for _, tr := range x.trace {
						if strings.HasPrefix(tr, "~env:") {
							judged = false
						}
					}
					if judged {
						got := outcomeByKey(m)
						gk := make([]string, 0, len(got))
						for k := range got {
							gk = append(gk, k)
						}
						sort.Strings(gk)
						for _, k := range gk {
							match := false
							for _, so := range serial {
								if so.byKey[k] == got[k] {
									match = true
								}
							}
							if !match {
								var sb strings.Builder
								for _, so := range serial {
									fmt.Fprintf(&sb, "--- order %v:\n%s", so.order, so.byKey[k])
								}
								return viol("C12:not-equal-to-any-serial-order", "for key %q the concurrent requests were answered, and the datatype stored, as\n%swhich equals none of the %d one-at-a-time orders:\n%s schedule %v", k, got[k], len(serial), clip(sb.String(), 3000), x.trace)
							}
						}
					}
				}
				if has(sa.AtEnd, "quiescent") {
					// realtime: the clients must already agree, without any Sync call of the harness
					var first string
					for i, c := range m.cls {
						for _, k := range m.p.Keys {
							d, ok := c.dts[k]
							if !ok {
								continue
							}
							if n := len(d.rep.dt.CreatePushPullPack().Operations); n > 0 {
								return viol("C18:realtime-client-kept-operations", "realtime client %d still holds %d unpushed operations at quiescence (no Sync was called); schedule %v", c.idx, n, x.trace)
							}
							v := d.rep.View()
							if i == 0 {
								first = v
							} else if v != first {
								return viol("C18:realtime-clients-did-not-converge:"+diffClass(first, v), "at quiescence without any Sync call: client 0 %s, client %d %s; schedule %v", first, c.idx, v, x.trace)
							}
						}
					}
				}
				if !sa.NoClose || true {
					sv := m.oracles["converge"]
					m.oracles["converge"] = sv || has(sa.AtEnd, "converge")
					if v := safeClose(m); v != nil {
						v.Msg += fmt.Sprintf("\n schedule: %v\n request errors: %v", x.trace, errs)
						return v
					}
				}
				if has(sa.AtEnd, "log") {
					if v := m.checkLog(); v != nil {
						v.Msg += fmt.Sprintf("\n schedule: %v", x.trace)
						return v
					}
				}
				if has(sa.AtEnd, "snapshots") {
					if v := m.checkSnapshots(); v != nil {
						return v
					}
				}
				envEvent := false
				for _, tr := range x.trace {
					if strings.HasPrefix(tr, "~env:") {
						envEvent = true // (a lease that ran out may have had the push refused: the client retries later)
					}
				}
				for _, l := range m.syncLost {
					if strings.Contains(l, "neither a response nor an error") {
						return viol("C16:request-answered-with-neither-response-nor-error:patch", "%s; schedule %v", l, x.trace)
					}
				}
				if len(m.syncLost) > 0 && !envEvent {
					return viol("C20:sync-returned-before-the-push", "%s; schedule %v", m.syncLost[0], x.trace)
				}
				if has(sa.AtEnd, "patched") && len(m.patchRefused) > 0 {
					// a document that already had a log when the patch was called can always be patched: nobody creates it any more, so
					// the only reasons for a refusal are a lock lease that ran out or a caller that gave up (environment events)
					env := false
					for _, tr := range x.trace {
						if strings.HasPrefix(tr, "~env:") {
							env = true
						}
					}
					if !env {
						return viol("C19:rest-patch-of-existing-document-refused", "%s - the document existed (its log was not empty) when the patch was called and no lock lease ran out; schedule %v", m.patchRefused[0], x.trace)
					}
				}
				if has(sa.AtEnd, "patched") {
					// every patch that was answered with success was answered with its target, and its effect is in the log: after
					// the closing syncs the stored document holds every member of the target (the scenarios' clients write other keys)
					for _, pd := range m.patched {
						if canonJSON(pd.answer) != canonJSON(pd.target) {
							return viol("C19:rest-response-differs", "PatchDocument(%s, %s) answered %s; schedule %v", pd.key, pd.target, pd.answer, x.trace)
						}
						sv, serr := m.serverView(pd.coll, pd.key)
						if serr != nil {
							return viol("C19:rest-patched-document-not-rebuildable", "%v; schedule %v", serr, x.trace)
						}
						var want, got map[string]interface{}
						json.Unmarshal([]byte(pd.target), &want)
						if i := strings.Index(sv, "json="); i >= 0 {
							js := sv[i+5:]
							dec := json.NewDecoder(strings.NewReader(js))
							dec.Decode(&got)
						}
						for k, wv := range want {
							if jsonStr(got[k]) != jsonStr(wv) {
								return viol("C19:rest-patch-answered-but-not-applied", "PatchDocument(%s, %s) was answered with success, but after all syncs the stored document reads %s (member %q should be %s); schedule %v", pd.key, pd.target, clip(sv, 400), k, jsonStr(wv), x.trace)
							}
						}
					}
				}
				if has(sa.AtEnd, "patchserial") && len(m.patched) > 0 {
					// only REST patches wrote the document during the concurrent part: whatever their order, they were served one
					// at a time, so the stored document is the target of the one served last - one of the targets
					pd0 := m.patched[0]
					sv, serr := m.serverView(pd0.coll, pd0.key)
					if serr != nil {
						return viol("C19:rest-patched-document-not-rebuildable", "%v; schedule %v", serr, x.trace)
					}
					got := ""
					if i := strings.Index(sv, "json="); i >= 0 {
						var g interface{}
						json.NewDecoder(strings.NewReader(sv[i+5:])).Decode(&g)
						got = jsonStr(g)
					}
					match := false
					var targets []string
					for _, pd := range m.patched {
						targets = append(targets, pd.target)
						if canonJSON(pd.target) == canonJSON(got) {
							match = true
						}
					}
					if !match {
						return viol("C12:patches-of-one-document-not-served-one-at-a-time", "PatchDocument calls with the targets %v were all answered with success; the stored document reads %s, which is none of the targets (a mix of two patches computed from the same base); schedule %v", targets, got, x.trace)
					}
				}
				if has(sa.AtEnd, "nosnapop") {
					for _, dt := range m.readStore() {
						for i, op := range dt.ops {
							if i > 0 && strings.HasSuffix(op.typ, "_SNAPSHOT") {
								return viol("C19:rest-patch-pushed-a-snapshot-operation", "the log of %s holds a %s operation at position %d (every subscriber resets to it); schedule %v", dt.key, op.typ, i+1, x.trace)
							}
						}
					}
				}
				if has(sa.AtEnd, "collections") {
					// whatever raced: a collection created afterwards gets a number of its own, and all stay distinct
					for _, name := range []string{"colLater1", "colLater2"} {
						if err := m.sys.MakeCollection(name); err != nil {
							return viol("C17:collection-cannot-be-created-after-race", "CreateCollection(%s) after the racing calls: %v; schedule %v", name, err, x.trace)
						}
						if v := m.checkCollections(); v != nil {
							v.Msg += fmt.Sprintf("; schedule %v", x.trace)
							return v
						}
					}
					if v := m.checkIsolation(); v != nil {
						v.Msg += fmt.Sprintf("; schedule %v", x.trace)
						return v
					}
				}
				for _, o := range sa.AtEnd {
					// "reset-empty:<collection>": the collection was reset while requests of its clients were being served. In
					// either order the collection ends without datatypes, operations, snapshots and clients (a request served
					// before the reset is removed by it, one served after it comes from a client that is no longer registered)
					if strings.HasPrefix(o, "reset-empty:") {
						coll := strings.TrimPrefix(o, "reset-empty:")
						if left := strings.TrimSpace(stripHeaders(m.projection(coll))); left != "" {
							// which kinds of documents remain is part of the signature
							var kinds []string
							cur := ""
							for _, l := range strings.Split(m.projection(coll), "\n") {
								if strings.HasPrefix(l, "## ") {
									cur = strings.TrimPrefix(strings.TrimPrefix(l, "## "), "-_-")
									if strings.HasPrefix(cur, "user:") {
										cur = "user-document"
									}
								} else if strings.TrimSpace(l) != "" && (len(kinds) == 0 || kinds[len(kinds)-1] != cur) {
									kinds = append(kinds, cur)
								}
							}
							return viol("C17:reset-raced-by-a-request-left-documents:"+strings.Join(kinds, "+"), "after ResetCollection(%s) and the requests that ran next to it, these documents of the collection remain:\n%s\nschedule %v", coll, clip(left, 1200), x.trace)
						}
					}
				}
				if has(sa.AtEnd, "onedoc") {
					// exactly one datatype document per (collection, key)
					seen := map[string]int{}
					for _, s := range m.readStore() {
						if s.key != "?orphan" {
							seen[fmt.Sprintf("%d/%s", s.colNum, s.key)]++
						}
					}
					keys := make([]string, 0, len(seen))
					for k := range seen {
						keys = append(keys, k)
					}
					sort.Strings(keys)
					for _, k := range keys {
						if seen[k] != 1 {
							return viol("C13:several-datatypes-for-one-key", "%d datatype documents for (collection/key) %s after racing entries; schedule %v", seen[k], k, x.trace)
						}
					}
					for _, c := range m.cls {
						for k, d := range c.dts {
							if d.rep.dt.GetState() != model.StateOfDatatype_SUBSCRIBED {
								_, es, _ := c.h.Events(k)
								if len(es) == 0 {
									return viol("C13:racing-entry-neither-subscribed-nor-refused", "client %d key %s: state %v and no error reported; schedule %v", c.idx, k, d.rep.dt.GetState(), x.trace)
								}
							}
							st, _, _ := c.h.Events(k)
							n := 0
							for _, s := range st {
								if strings.HasSuffix(s, "->SUBSCRIBED") {
									n++
								}
							}
							if n > 1 {
								return viol("C13:subscribed-transition-count", "client %d key %s reported ->SUBSCRIBED %d times", c.idx, k, n)
							}
						}
					}
				}
				return nil
			}
			return acts, atPoint, atEnd, func() { vsync.Hook = nil; verifrt.GoHook = nil; verifrt.PointHook = nil; m.Shutdown() }
		}}
	}
}
