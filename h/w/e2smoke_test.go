package w

import (
	"testing"
	"testing/synctest"
	"time"

	"github.com/orda-io/orda/client/pkg/model"

	"verif/h/sysx"
)

func TestE2Smoke(t *testing.T) {
	for i := 0; i < 3; i++ {
		t0 := time.Now()
		synctest.Test(t, func(t *testing.T) {
			resetUIDs()
			sys := sysx.NewSystem()
			defer sys.Shutdown()
			if err := sys.StartServer(); err != nil {
				t.Fatal(err)
			}
			if err := sys.MakeCollection("col"); err != nil {
				t.Fatal(err)
			}
			a := sys.NewClient("col", "a", model.SyncType_MANUALLY)
			if err := a.Connect(); err != nil {
				t.Fatal(err)
			}
			cnt := a.C.CreateCounter("k", a.Handlers("k"))
			cnt.IncreaseBy(3)
			if err := a.C.Sync(); err != nil {
				t.Fatal(err)
			}
			synctest.Wait()
			b := sys.NewClient("col", "b", model.SyncType_MANUALLY)
			if err := b.Connect(); err != nil {
				t.Fatal(err)
			}
			cb := b.C.SubscribeCounter("k", b.Handlers("k"))
			if err := b.C.Sync(); err != nil {
				t.Fatal(err)
			}
			synctest.Wait()
			if cb.Get() != 3 {
				t.Fatalf("subscriber sees %d", cb.Get())
			}
			st, errs, _ := b.Events("k")
			t.Logf("b states=%v errs=%v cmds=%d", st, errs, sys.DB.NumCommands())
			if i == 0 {
				t.Logf("dump:\n%s", sys.DB.Dump())
			}
		})
		t.Logf("bubble %d took %v", i, time.Since(t0))
	}
}
