package w

import (
	"bufio"
	"encoding/json"
	"fmt"
	"os"
	"path/filepath"
	"regexp"
	"sort"
	"strings"
	"sync"
	"time"

	"verif/h/pt"
)

// Supplementary free-running pass (DESIGN.md §3.5): the cooperative scheduler's hand-offs are
// happens-before edges that blind the race detector, so the SAME activity bodies of a schedule
// scenario are started as plain goroutines on several processors, many times, in a worker built with
// -race. The end-state oracle of the scenario is evaluated after every repetition; data races the
// detector logs are parsed from its log file and reported by the pair of accessing functions.
// This pass samples schedules; it decides nothing (its observations are notes, never violations: a
// free-running execution cannot be replayed) and only tells where the exhaustive search needs points.

type raceParams struct {
	Scenario string          `json:"scenario"`
	Args     json.RawMessage `json:"args"`
	Reps     int             `json:"reps"`
}

var raceFrame = regexp.MustCompile(`^\s+(\S+)\(`)

// parseRaceLog returns one signature per distinct race: "<access> f | <access> g" with the innermost
// repository frames of both accesses.
func parseRaceLog(glob string) map[string]string {
	out := map[string]string{}
	files, _ := filepath.Glob(glob)
	for _, fn := range files {
		f, err := os.Open(fn)
		if err != nil {
			continue
		}
		sc := bufio.NewScanner(f)
		sc.Buffer(make([]byte, 1<<20), 1<<20)
		var block []string
		flush := func() {
			if len(block) == 0 {
				return
			}
			var parts []string
			for i, l := range block {
				if strings.Contains(l, " by goroutine ") || strings.Contains(l, " by main goroutine") {
					kind := strings.Fields(strings.TrimSpace(l))
					acc := strings.ToLower(kind[0])
					if acc == "previous" && len(kind) > 1 {
						acc = "previous-" + strings.ToLower(kind[1])
					}
					// innermost frame inside the repository (skip runtime / sync / harness frames)
					fr := "?"
					for j := i + 1; j < len(block) && strings.TrimSpace(block[j]) != ""; j++ {
						if m := raceFrame.FindStringSubmatch(block[j]); m != nil && strings.Contains(m[1], "orda-io/orda") {
							fr = m[1][strings.LastIndex(m[1], "/")+1:]
							break
						}
					}
					parts = append(parts, acc+" "+fr)
				}
			}
			for _, p := range parts {
				if strings.Contains(p, "verifrt.") {
					parts = nil // the harness' own hook variables, rewritten per repetition
				}
			}
			if len(parts) >= 2 {
				// "<function> [<access>]" of both sides, sorted: the same pair reads the same whichever came first
				for i, p := range parts {
					f := strings.Fields(p)
					parts[i] = f[1] + " [" + strings.TrimPrefix(f[0], "previous-") + "]"
				}
				sort.Strings(parts)
				sig := strings.Join(parts[:2], " | ")
				if _, ok := out[sig]; !ok {
					out[sig] = strings.Join(block, "\n")
				}
			}
			block = nil
		}
		for sc.Scan() {
			l := sc.Text()
			if strings.HasPrefix(l, "WARNING: DATA RACE") {
				flush()
				block = []string{l}
				continue
			}
			if strings.HasPrefix(l, "==================") {
				flush()
				continue
			}
			if block != nil {
				block = append(block, l)
			}
		}
		flush()
		f.Close()
	}
	return out
}

func init() {
	jobKinds["racefree"] = func(job *pt.Job, emit func(pt.Line, bool)) {
		var p raceParams
		json.Unmarshal(job.Params, &p)
		if p.Reps == 0 {
			p.Reps = 50
		}
		mk, ok := schedScenarios[p.Scenario]
		if !ok {
			emit(pt.Line{Err: "unknown scenario " + p.Scenario}, true)
			return
		}
		sc := mk(p.Args)
		info := pt.ShardInfo{Exhaustive: false, Cap: fmt.Sprintf("free-running sample of %d repetitions (supplementary pass, not exhaustive)", p.Reps)}
		seen := map[string]bool{}
		var notes []string
		for rep := 0; rep < p.Reps; rep++ {
			resetUIDs()
			x := &schedExec{started: map[string]bool{}, done: map[string]bool{}}
			acts, _, atEnd, shutdown := sc.build(x) // the scheduler stays in pass-through mode: gates do nothing
			start := make(chan struct{})
			var wg sync.WaitGroup
			for _, a := range acts {
				a := a
				wg.Add(1)
				go func() {
					defer wg.Done()
					<-start
					a.f()
				}()
			}
			close(start)
			done := make(chan struct{})
			go func() { wg.Wait(); close(done) }()
			select {
			case <-done:
			case <-time.After(120 * time.Second):
				info.Cap += "; a repetition did not finish within 120 s of real time (not counted)"
				shutdown()
				b, _ := json.Marshal(info)
				emit(pt.Line{Done: true, Info: b}, true)
				return
			}
			info.Evaluations++
			info.Transitions += len(acts)
			if atEnd != nil {
				if v := atEnd(); v != nil && !seen[v.Sig] {
					seen[v.Sig] = true
					notes = append(notes, "oracle "+v.Sig+": "+clip(v.Msg, 300))
					info.Outcomes = append(info.Outcomes, "oracle "+v.Sig)
				}
			}
			shutdown()
		}
		races := parseRaceLog(os.Getenv("VERIF_RACELOG") + ".*")
		var sigs []string
		for s := range races {
			sigs = append(sigs, s)
		}
		sort.Strings(sigs)
		for _, s := range sigs {
			notes = append(notes, "race "+s+"\n"+clip(races[s], 1500))
			info.Outcomes = append(info.Outcomes, "race "+s)
		}
		// Nothing of this pass is a verdict (a free-running execution cannot be replayed): the observations
		// are notes in the evidence, printed by the driver, and tell which accesses the schedule search has
		// to treat as scheduling points.
		info.Extra, _ = json.Marshal(map[string]interface{}{"free_running_notes": notes})
		info.States = info.Evaluations
		b, _ := json.Marshal(info)
		emit(pt.Line{Done: true, Info: b}, true)
	}
}
