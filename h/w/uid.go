package w

import (
	crand "crypto/rand"
	"fmt"
	"sync"
)

// scriptReader replaces crypto/rand.Reader: every 16-byte read (a nanoid UID) yields the bytes that
// make types.NewUID() return "u%015d" of a counter the harness resets per execution; other read
// sizes get a deterministic counter stream. So every CUID/DUID in an execution is scripted.
type scriptReader struct {
	mu  sync.Mutex
	n   int
	oth uint64
}

const nanoAlphabet = "_-0123456789abcdefghijklmnopqrstuvwxyzABCDEFGHIJKLMNOPQRSTUVWXYZ"

var uidScript = &scriptReader{}

func init() { crand.Reader = uidScript }

func (s *scriptReader) Read(b []byte) (int, error) {
	s.mu.Lock()
	defer s.mu.Unlock()
	if len(b) == 16 {
		s.n++
		id := fmt.Sprintf("u%015d", s.n)
		for i := range b {
			for j := 0; j < len(nanoAlphabet); j++ {
				if nanoAlphabet[j] == id[i] {
					b[i] = byte(j)
				}
			}
		}
		return len(b), nil
	}
	for i := range b {
		s.oth = s.oth*6364136223846793005 + 1442695040888963407
		b[i] = byte(s.oth >> 33)
	}
	return len(b), nil
}

// resetUIDs restarts the UID script (call at the start of every execution).
func resetUIDs() {
	uidScript.mu.Lock()
	uidScript.n = 0
	uidScript.oth = 0
	uidScript.mu.Unlock()
}

// uidOf returns the n-th scripted UID (1-based).
func uidOf(n int) string { return fmt.Sprintf("u%015d", n) }
