package w

import (
	crand "crypto/rand"
	"fmt"
	"sync"
)

// scriptReader replaces crypto/rand.Reader: every 16-byte read (a nanoid UID) yields the bytes that
// make types.NewUID() return "u%015d" of a counter the harness resets per execution; other read
// sizes get a deterministic counter stream. So every CUID/DUID in an execution is scripted.
type scriptReader struct {
	mu    sync.Mutex
	n     int
	oth   uint64
	mixed bool // the first three client ids differ in their first character only, across the classes of the id alphabet
}

// mixedCUIDs are the ids of replicas 0, 1, 2 in "mixid" worlds: 0 and 1 differ only in case; in byte order Z < _ < z,
// while any order that folds case or ranks the classes (digits, punctuation, upper, lower) differently disagrees.
var mixedCUIDs = []string{"Zq00000000000001", "zq00000000000001", "_q00000000000001"}

const nanoAlphabet = "_-0123456789abcdefghijklmnopqrstuvwxyzABCDEFGHIJKLMNOPQRSTUVWXYZ"

var uidScript = &scriptReader{}

func init() { crand.Reader = uidScript }

func (s *scriptReader) Read(b []byte) (int, error) {
	s.mu.Lock()
	defer s.mu.Unlock()
	if len(b) == 16 {
		s.n++
		id := fmt.Sprintf("u%015d", s.n)
		if s.mixed && s.n%2 == 1 && s.n/2 < len(mixedCUIDs) {
			id = mixedCUIDs[s.n/2] // the 1st, 3rd and 5th id drawn are the client ids of replicas 0, 1, 2 (world.go checks it)
		}
		for i := range b {
			for j := 0; j < len(nanoAlphabet); j++ {
				if nanoAlphabet[j] == id[i] {
					b[i] = byte(j)
				}
			}
		}
		return len(b), nil
	}
	for i := range b {
		s.oth = s.oth*6364136223846793005 + 1442695040888963407
		b[i] = byte(s.oth >> 33)
	}
	return len(b), nil
}

// resetUIDs restarts the UID script (call at the start of every execution).
func resetUIDs() {
	uidScript.mu.Lock()
	uidScript.n = 0
	uidScript.oth = 0
	uidScript.mixed = false
	uidScript.mu.Unlock()
}

// uidOf returns the n-th scripted UID (1-based).
func uidOf(n int) string { return fmt.Sprintf("u%015d", n) }
