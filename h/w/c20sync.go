package w

import (
	"encoding/json"
	"fmt"
	"strings"
	"sync"

	"github.com/orda-io/orda/client/pkg/model"
	"github.com/orda-io/orda/client/pkg/operations"
	"github.com/orda-io/orda/client/pkg/orda"
	"github.com/orda-io/orda/client/pkg/verifrt"
	"github.com/orda-io/orda/client/pkg/verifrt/vsync"

	"verif/h/pt"
	"verif/h/sysx"
)

// C20, background syncs: user goroutines call the datatype while one or two goroutines run the SDK's
// sync step on it (CreatePushPullPack -> exchange -> ApplyPushPullPack; two of them model a
// notification-triggered sync overlapping a push-triggered one, which the per-client semaphore does not
// exclude). The server is played by the harness exactly like server/service pushes and pulls: operations
// are accepted in per-client sequence order, duplicates dropped, a gap refused; the answer carries the
// log behind the request's checkpoint.

type miniServer struct {
	mu       sync.Mutex
	log      []*model.Operation
	cseq     map[string]uint64
	problems []string
}

func (s *miniServer) exchange(req *model.PushPullPack, cuid string) *model.PushPullPack {
	s.mu.Lock()
	defer s.mu.Unlock()
	cur := s.cseq[cuid]
	end := uint64(len(s.log))
	pushed := uint64(0)
	ops := req.Operations
	for i, op := range ops {
		if op.OpType == model.TypeOfOperation_TRANSACTION {
			if tx, ok := operations.ModelToOperation(op).(*operations.TransactionOperation); ok {
				if n := int(tx.GetNumOfOps()); i+n > len(ops) {
					s.problems = append(s.problems, fmt.Sprintf("partial-transaction-pushed|a pack carries the transaction header seq %d announcing %d operations but only %d of them", op.ID.Seq, n, len(ops)-i))
				}
			}
		}
		switch {
		case op.ID.Seq == cur+1:
			s.log = append(s.log, cloneOp(op))
			cur++
			pushed++
		case op.ID.Seq <= cur: // duplicate: dropped
		default:
			s.problems = append(s.problems, fmt.Sprintf("pushed-with-gap|operation seq %d offered when the server holds this client's operations up to %d", op.ID.Seq, cur))
		}
	}
	s.cseq[cuid] = cur
	resp := &model.PushPullPack{Key: req.Key, DUID: req.DUID, Type: req.Type, Era: req.Era, Option: uint32(model.PushPullBitNormal),
		CheckPoint: &model.CheckPoint{Sseq: end + pushed, Cseq: cur}}
	from := req.CheckPoint.Sseq
	if from > end {
		s.problems = append(s.problems, fmt.Sprintf("checkpoint-ahead-of-log|request checkpoint sseq %d, log ends at %d", from, end))
		from = end
	}
	for _, op := range s.log[from:end] {
		resp.Operations = append(resp.Operations, cloneOp(op))
	}
	return resp
}

func init() {
	schedScenarios["c20sync"] = func(args json.RawMessage) schedScenario {
		var a struct {
			Type    string `json:"type"`    // counter | list
			Users   int    `json:"users"`   // 1..3 user goroutines (call, transaction, two calls)
			Syncs   int    `json:"syncs"`   // 1..2 sync goroutines
			Pending int    `json:"pending"` // operations issued and not yet pushed before the run
			Stmt    bool   `json:"stmt"`
			TxFail  bool   `json:"txfail"` // the transaction's body returns an error after its two calls: nothing of it may remain
			Quiet   bool   `json:"quiet"`  // the replica has pulled everything before the run: sync answers carry no foreign operations
			Grow    bool   `json:"grow"`   // the other replica pushes, as one more activity, an operation that builds on what it pushed before: the answers of overlapping syncs differ in length
		}
		json.Unmarshal(args, &a)
		return schedScenario{name: "c20sync", build: func(x *schedExec) ([]activity, func() *pt.Violation, func() *pt.Violation, func()) {
			w := NewWorld(WParams{Type: a.Type, N: 2})
			r, other := w.reps[0], w.reps[1]
			srv := &miniServer{cseq: map[string]uint64{}}
			// the harness world's log becomes the server log; checkpoints of both replicas are at its end
			for _, op := range w.log {
				srv.log = append(srv.log, cloneOp(op))
				if op.ID.Seq > srv.cseq[op.ID.CUID] {
					srv.cseq[op.ID.CUID] = op.ID.Seq
				}
			}
			sync1 := func(rep *Replica) {
				pack := rep.dt.CreatePushPullPack()
				b := cloneOps(pack.Operations)
				req := &model.PushPullPack{Key: pack.Key, DUID: pack.DUID, Type: pack.Type, Era: pack.Era, Option: pack.Option,
					CheckPoint: &model.CheckPoint{Sseq: pack.CheckPoint.Sseq, Cseq: pack.CheckPoint.Cseq}, Operations: b}
				rep.dt.ApplyPushPullPack(srv.exchange(req, rep.cuid))
			}
			local := func(rep *Replica, delta int32, tag string) bool {
				if a.Type == "counter" {
					_, err := rep.cnt.IncreaseBy(delta)
					return err == nil
				}
				_, err := rep.li.Insert(0, tag)
				return err == nil
			}
			// the other replica contributes two operations the syncs will pull
			local(other, 100, "o1")
			local(other, 1000, "o2")
			sync1(other)
			if a.Quiet {
				sync1(r)
			}
			if a.Grow {
				if a.Type == "counter" {
					other.cnt.IncreaseBy(10000)
				} else {
					other.li.Insert(1, "o3") // right behind "o2"
				}
			}
			issued := 0
			for i := 0; i < a.Pending; i++ {
				if local(r, 1, fmt.Sprintf("p%d", i)) {
					issued++
				}
			}
			sched := sysx.NewSched()
			x.sched = sched
			vsync.Hook = func(p string) { sched.Gate("sync." + p) }
			verifrt.GoHook = func(site string) { sched.Gate("go:" + site) }
			if a.Stmt {
				verifrt.PointHook = func(site string) { sched.Gate("pt:" + site) }
			}
			var mu sync.Mutex
			var panics []string
			sum := int32(a.Pending)
			var tags []string
			for i := 0; i < a.Pending; i++ {
				tags = append(tags, fmt.Sprintf("p%d", i))
			}
			guard := func(name string, f func()) func() {
				return func() {
					defer func() {
						if p := recover(); p != nil {
							mu.Lock()
							panics = append(panics, fmt.Sprintf("%s: %v", name, p))
							mu.Unlock()
						}
					}()
					f()
				}
			}
			note := func(nops int, delta int32, tg ...string) {
				mu.Lock()
				issued += nops
				sum += delta
				tags = append(tags, tg...)
				mu.Unlock()
			}
			var acts []activity
			acts = append(acts, activity{name: "u0-call", f: guard("u0", func() {
				if local(r, 1, "u0a") {
					note(1, 1, "u0a")
				}
			})})
			if a.Users >= 2 {
				acts = append(acts, activity{name: "u1-tx", f: guard("u1", func() {
					var err, ret error
					if a.TxFail {
						ret = fmt.Errorf("the body gives up")
					}
					if a.Type == "counter" {
						err = r.cnt.Transaction("tx", func(c orda.CounterInTx) error { c.IncreaseBy(10); c.IncreaseBy(10); return ret })
					} else {
						err = r.li.Transaction("tx", func(l orda.ListInTx) error { l.Insert(0, "u1a"); l.Insert(1, "u1b"); return ret })
					}
					if err == nil && a.TxFail {
						mu.Lock()
						panics = append(panics, "u1: Transaction returned nil although its body returned an error")
						mu.Unlock()
					}
					if err == nil && !a.TxFail {
						note(3, 20, "u1a", "u1b")
					}
				})})
			}
			if a.Users >= 3 {
				acts = append(acts, activity{name: "u2-calls", f: guard("u2", func() {
					if local(r, 3, "u2a") {
						note(1, 3, "u2a")
					}
					if local(r, 3, "u2b") {
						note(1, 3, "u2b")
					}
				})})
			}
			for i := 0; i < a.Syncs; i++ {
				n := fmt.Sprintf("s%d-sync", i)
				acts = append(acts, activity{name: n, f: guard(n, func() { sync1(r) })})
			}
			if a.Grow {
				acts = append(acts, activity{name: "x-push", f: guard("x-push", func() { sync1(other) })})
			}
			atEnd := func() *pt.Violation {
				mu.Lock()
				defer mu.Unlock()
				if len(panics) > 0 {
					return viol("C20:panic:"+firstLine(panics[0][strings.Index(panics[0], ":")+1:]), "a goroutine panicked: %v; schedule %v", panics, x.trace)
				}
				// closure: fault-free sequential syncs until nothing moves
				var cerr string
				func() {
					defer func() {
						if p := recover(); p != nil {
							cerr = fmt.Sprint(p)
						}
					}()
					for round := 0; round < 3; round++ {
						sync1(r)
						sync1(other)
					}
				}()
				if cerr != "" {
					return viol("C20:panic:closing-sync:"+firstLine(cerr), "a closing sync panicked: %s; schedule %v", cerr, x.trace)
				}
				if len(srv.problems) > 0 {
					p := strings.SplitN(srv.problems[0], "|", 2)
					return viol("C20:"+p[0], "%s (all: %v); schedule %v", p[1], srv.problems, x.trace)
				}
				mine := 0
				var last uint64
				for _, op := range srv.log {
					if op.ID.CUID == r.cuid {
						mine++
						if op.ID.Seq != last+1 {
							return viol("C20:log-not-in-sequence-order", "the server log holds this client's seq %d after %d; schedule %v", op.ID.Seq, last, x.trace)
						}
						last = op.ID.Seq
					}
				}
				// the creation snapshot operation is seq 1 of replica 0
				if mine != issued+1 {
					return viol("C20:issued-operation-never-pushed", "%d operations were issued (plus the creation snapshot), the log holds %d of this client after the closing syncs; pending: %d; schedule %v",
						issued, mine, len(r.dt.CreatePushPullPack().Operations), x.trace)
				}
				if n := len(r.dt.CreatePushPullPack().Operations); n != 0 {
					return viol("C20:acknowledged-operations-still-pending", "%d operations still pending after the closing syncs although the server holds all %d; schedule %v", n, mine, x.trace)
				}
				vr, vo := r.View(), other.View()
				x.outcome = fmt.Sprintf("issued=%d view=%s", issued, clip(vr, 120))
				if vr != vo {
					return viol("C20:replicas-diverge-after-concurrent-syncs", "after the closing syncs the replica reads\n%s\nthe other replica\n%s\nschedule %v", vr, vo, x.trace)
				}
				foreign, fsum := 2, int32(1100)
				if a.Grow {
					foreign, fsum = 3, 11100
				}
				if a.Type == "counter" {
					if got := r.cnt.Get(); got != sum+fsum {
						return viol("C20:lost-update", "counter reads %d, successful calls and remote operations sum to %d; schedule %v", got, sum+fsum, x.trace)
					}
				} else {
					b, _ := json.Marshal(r.li.ToJSON())
					var l struct{ List []string }
					json.Unmarshal(b, &l)
					if len(l.List) != len(tags)+foreign {
						return viol("C20:lost-update", "list holds %v; inserted were %v and the other replica's o1 o2 (o3); schedule %v", l.List, tags, x.trace)
					}
				}
				return nil
			}
			return acts, nil, atEnd, func() { vsync.Hook = nil; verifrt.GoHook = nil; verifrt.PointHook = nil }
		}}
	}
}

func cloneOps(ops []*model.Operation) []*model.Operation {
	out := make([]*model.Operation, 0, len(ops))
	for _, op := range ops {
		out = append(out, cloneOp(op))
	}
	return out
}
