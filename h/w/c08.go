package w

import (
	"encoding/json"
	"fmt"
	"testing"
	"testing/synctest"
	"time"

	"verif/h/pt"
)

// C08: every database command issued while serving every request of a scenario is, in turn, made
// to fail (single command) or to be the last command before the server dies; then all clients retry.

type c08Scenario struct {
	name    string
	params  E2Params
	actions []pt.Action
}

func c08Scenarios() []c08Scenario {
	inc := func(r int) pt.Action { return pt.Action{Op: "inc", R: r, P: 1, T: "k1|"} }
	ins := func(r, p int) pt.Action { return pt.Action{Op: "ins1", R: r, P: p, V: "p", T: "k1|"} }
	syn := func(r int) pt.Action { return pt.Action{Op: "sync", R: r} }
	open := func(r int, mode string) pt.Action { return pt.Action{Op: "open", R: r, T: "k1", K: mode} }
	return []c08Scenario{
		{"counter-soc", E2Params{Clients: 2, Type: "counter", Tolerant: true},
			[]pt.Action{open(0, "soc"), inc(0), syn(0), open(1, "soc"), syn(1), inc(1), inc(0), syn(1), syn(0)}},
		{"list-create-subscribe", E2Params{Clients: 2, Type: "list", Tolerant: true},
			[]pt.Action{open(0, "create"), ins(0, 0), ins(0, 1), syn(0), open(1, "subscribe"), syn(1), ins(1, 0), {Op: "del1", R: 0, P: 0, T: "k1|"}, syn(1), syn(0), syn(1)}},
		{"counter-pull-only", E2Params{Clients: 2, Type: "counter", Tolerant: true, Prefix: "joined"},
			[]pt.Action{inc(0), syn(0), syn(1), syn(1), inc(1), syn(1), syn(0)}},
	}
}

type c08Case struct {
	Scenario string `json:"scenario"`
	Kind     string `json:"kind"` // fail | crash
	K        int    `json:"k"`
	K2       int    `json:"k2,omitempty"` // second fault (pairs), same kind
}

// c08Run executes a scenario with a fault plan; k == 0 runs fault-free and returns the number of
// commands the scenario issues.
func c08Run(t *testing.T, sc c08Scenario, cs c08Case) (ncmd int, outcome string, v *pt.Violation) {
	synctest.Test(t, func(t *testing.T) {
		pp, _ := json.Marshal(sc.params)
		m := newE2(pp)
		defer m.Shutdown()
		if m.fatal != nil {
			v = m.fatal
			return
		}
		base := m.sys.DB.NumCommands()
		arm := func(k int) {
			if k <= 0 {
				return
			}
			if cs.Kind == "crash" {
				m.sys.DB.CrashAt = base + k
			} else {
				m.sys.DB.FailAt = base + k
			}
		}
		arm(cs.K)
		pendingSecond := cs.K2
		restarts := 0
		recoverServer := func() *pt.Violation {
			if !m.sys.DB.Dead() {
				return nil
			}
			// the server process is gone: a new one starts over the surviving database
			restarts++
			m.sys.StopServer()
			m.sys.DB.Restart()
			time.Sleep(time.Second)
			if err := m.sys.StartServer(); err != nil {
				return viol("C08:server-does-not-restart", "after %v the server cannot start over the surviving database: %v", cs, err)
			}
			if pendingSecond > 0 {
				base = m.sys.DB.NumCommands() - cs.K // keep numbering relative to the scenario start
				arm(pendingSecond)
				pendingSecond = 0
			}
			return nil
		}
		for _, a := range sc.actions {
			if vv := safeApply(m, a); vv != nil {
				vv.Sig = vv.Sig + ":during-" + cs.Kind
				v = vv
				return
			}
			if vv := recoverServer(); vv != nil {
				v = vv
				return
			}
			if cs.Kind == "fail" && pendingSecond > 0 && m.sys.DB.NumCommands() >= base+cs.K {
				m.sys.DB.FailAt = base + pendingSecond
				pendingSecond = 0
			}
		}
		ncmd = m.sys.DB.NumCommands() - base
		// no more faults: every client retries until quiescence
		m.sys.DB.FailAt, m.sys.DB.CrashAt = 0, 0
		for _, o := range []string{"converge", "applied", "issued", "reference", "log"} {
			m.oracles[o] = true
		}
		if vv := safeClose(m); vv != nil {
			vv.Sig = vv.Sig + ":after-" + cs.Kind
			v = vv
			return
		}
		if vv := m.checkLog(); vv != nil {
			vv.Sig = vv.Sig + ":after-" + cs.Kind
			v = vv
			return
		}
		if vv := m.checkSnapshots(); vv != nil {
			vv.Sig = vv.Sig + ":after-" + cs.Kind
			v = vv
			return
		}
		var errs int
		for _, c := range m.cls {
			for k := range c.dts {
				_, e, _ := c.h.Events(k)
				errs += len(e)
			}
		}
		outcome = fmt.Sprintf("restarts=%d client-errors=%d cmds=%d", restarts, errs, ncmd)
	})
	return
}

func init() {
	jobKinds["dbfault"] = func(job *pt.Job, emit func(pt.Line, bool)) {
		var p struct {
			Pairs bool `json:"pairs"`
		}
		json.Unmarshal(job.Params, &p)
		var ex struct {
			Skip []int `json:"skip"`
		}
		json.Unmarshal(job.Extra, &ex)
		skip := map[int]bool{}
		for _, k := range ex.Skip {
			skip[k] = true
		}
		var cases []c08Case
		scs := c08Scenarios()
		byName := map[string]c08Scenario{}
		for si, sc := range scs {
			byName[sc.name] = sc
			n, _, v := c08Run(curT, sc, c08Case{Scenario: sc.name})
			if v != nil {
				eb, _ := json.Marshal(c08Case{Scenario: sc.name})
				b, _ := json.Marshal(pt.CaseOut{Name: sc.name + "/fault-free", Viol: v, Extra: eb})
				if job.Shard == 0 {
					emit(pt.Line{I: 100000 + si, Done: true, Info: b}, true)
				}
				continue
			}
			for _, kind := range []string{"fail", "crash"} {
				for k := 1; k <= n; k++ {
					cases = append(cases, c08Case{Scenario: sc.name, Kind: kind, K: k})
				}
			}
			if p.Pairs && si < 2 {
				for _, kind := range []string{"fail", "crash"} {
					for k := 1; k <= n; k++ {
						for k2 := k + 1; k2 <= n && k2 <= k+12; k2++ {
							cases = append(cases, c08Case{Scenario: sc.name, Kind: kind, K: k, K2: k2})
						}
					}
				}
			}
		}
		for i, cs := range cases {
			if (job.Shards > 0 && i%job.Shards != job.Shard) || skip[i] {
				continue
			}
			ii := i
			eb, _ := json.Marshal(cs)
			emit(pt.Line{Start: &ii, I: i, Info: eb}, true)
			curCase = i
			_, out, v := c08Run(curT, byName[cs.Scenario], cs)
			b, _ := json.Marshal(pt.CaseOut{Name: fmt.Sprintf("%s/%s", cs.Scenario, cs.Kind), Outcome: out, Transitions: len(byName[cs.Scenario].actions), Viol: v, Extra: eb})
			emit(pt.Line{I: i, Done: true, Info: b}, false)
		}
		b, _ := json.Marshal(pt.ShardInfo{Exhaustive: true})
		emit(pt.Line{I: -1, Done: true, Info: b}, true)
	}
	jobKinds["dbfault-replay"] = func(job *pt.Job, emit func(pt.Line, bool)) {
		var cs c08Case
		json.Unmarshal(job.Extra, &cs)
		for _, sc := range c08Scenarios() {
			if sc.name == cs.Scenario {
				_, out, v := c08Run(curT, sc, cs)
				b, _ := json.Marshal(ReplayInfo{Steps: []string{fmt.Sprintf("%+v -> %s", cs, out)}, Viol: v})
				emit(pt.Line{Done: true, Info: b}, true)
			}
		}
	}
}
