package w

import (
	"encoding/json"
	"fmt"
	"strings"
	"testing"
	"testing/synctest"
	"time"

	"verif/h/mongofake"
	"verif/h/pt"
)

// C08: every database command issued while serving every request of a scenario is, in turn, made
// to fail (single command) or to be the last command before the server dies; then all clients retry.

type c08Scenario struct {
	name    string
	params  E2Params
	actions []pt.Action
}

func c08Scenarios() []c08Scenario {
	inc := func(r int) pt.Action { return pt.Action{Op: "inc", R: r, P: 1, T: "k1|"} }
	ins := func(r, p int) pt.Action { return pt.Action{Op: "ins1", R: r, P: p, V: "p", T: "k1|"} }
	syn := func(r int) pt.Action { return pt.Action{Op: "sync", R: r} }
	dput := func(r int, k, v string) pt.Action { return pt.Action{Op: "dput", R: r, K: k, V: v, T: "k1|"} }
	put := func(r int, k, v string) pt.Action { return pt.Action{Op: "put", R: r, K: k, V: v, T: "k1|"} }
	open := func(r int, mode string) pt.Action { return pt.Action{Op: "open", R: r, T: "k1", K: mode} }
	// one request pulls more operations than the database hands out in its first batch (101): the rest of the range
	// comes with further commands (getMore), each of which can fail or be the last before the server dies
	bigPull := []pt.Action{}
	for i := 0; i < 105; i++ {
		bigPull = append(bigPull, inc(0))
	}
	bigPull = append(bigPull, syn(0), syn(1), inc(1), syn(1), syn(0))
	inck := func(r int, k string) pt.Action { return pt.Action{Op: "inc", R: r, P: 1, T: k + "|"} }
	return []c08Scenario{
		// every request carries two datatypes: their packs are served side by side, the failure of one of them must not
		// leave the other one (or its key) unusable
		{"counter-two-datatypes-per-request", E2Params{Clients: 2, Type: "counter", Keys: []string{"k1", "k2"}, Tolerant: true, Prefix: "joined"},
			[]pt.Action{inck(0, "k1"), inck(0, "k2"), syn(0), syn(1), inck(1, "k2"), syn(1), inck(0, "k1"), syn(0)}},
		{"counter-pull-of-105", E2Params{Clients: 2, Type: "counter", Tolerant: true, Prefix: "joined"}, bigPull},
		{"counter-soc", E2Params{Clients: 2, Type: "counter", Tolerant: true},
			[]pt.Action{open(0, "soc"), inc(0), syn(0), open(1, "soc"), syn(1), inc(1), inc(0), syn(1), syn(0)}},
		{"list-create-subscribe", E2Params{Clients: 2, Type: "list", Tolerant: true},
			[]pt.Action{open(0, "create"), ins(0, 0), ins(0, 1), syn(0), open(1, "subscribe"), syn(1), ins(1, 0), {Op: "del1", R: 0, P: 0, T: "k1|"}, syn(1), syn(0), syn(1)}},
		{"counter-pull-only", E2Params{Clients: 2, Type: "counter", Tolerant: true, Prefix: "joined"},
			[]pt.Action{inc(0), syn(0), syn(1), syn(1), inc(1), syn(1), syn(0)}},
		{"doc-tx", E2Params{Clients: 2, Type: "doc", Tolerant: true},
			[]pt.Action{open(0, "soc"), dput(0, "a", "o"),
				{Op: "tx", R: 0, T: "k1|", Sub: []pt.Action{{Op: "dput", K: "b", V: "p"}, {Op: "dput", K: "c", V: "a"}}},
				syn(0), open(1, "subscribe"), syn(1), dput(1, "d", "p"), {Op: "ddel", R: 0, K: "a", T: "k1|"}, syn(1), syn(0), syn(1)}},
		{"doc-rest-patch", E2Params{Clients: 2, Type: "doc", Tolerant: true},
			[]pt.Action{open(0, "soc"), dput(0, "a", "o"), syn(0), {Op: "patch", R: 0, T: "k1", V: `{"a":{"x":1},"b":[1,2]}`}, open(1, "subscribe"), syn(1),
				dput(1, "d", "p"), syn(1), {Op: "patch", R: 0, T: "k2", V: `{"n":[true]}`}, syn(0), {Op: "patch", R: 0, T: "k1", V: `{"b":[2],"d":"q"}`}, syn(1), syn(0)}},
		{"map-3c", E2Params{Clients: 3, Type: "map", Tolerant: true},
			[]pt.Action{open(0, "create"), put(0, "x", "p"), syn(0), open(1, "subscribe"), open(2, "soc"), syn(1), syn(2),
				put(1, "x", "o"), {Op: "rem", R: 2, K: "x", T: "k1|"}, syn(2), syn(1), syn(0), syn(2)}},
	}
}

type c08Case struct {
	Scenario string            `json:"scenario"`
	Faults   []mongofake.Fault `json:"faults,omitempty"`
}

func (cs c08Case) kinds() string {
	var ks []string
	for _, f := range cs.Faults {
		ks = append(ks, f.Kind)
	}
	return strings.Join(ks, "+")
}

// c08Run executes a scenario with a fault plan; an empty plan runs fault-free and returns the number
// of commands the scenario issues.
func c08Run(t *testing.T, sc c08Scenario, cs c08Case) (ncmd int, outcome string, v *pt.Violation) {
	synctest.Test(t, func(t *testing.T) {
		pp, _ := json.Marshal(sc.params)
		m := newE2(pp)
		defer m.Shutdown()
		if m.fatal != nil {
			v = m.fatal
			return
		}
		base := m.sys.DB.NumCommands()
		m.sys.DB.SetPlan(cs.Faults)
		tag := ""
		if len(cs.Faults) > 0 {
			tag = strings.TrimSuffix(cs.Faults[0].Kind, "b")
		}
		restarts := 0
		recoverServer := func() *pt.Violation {
			if m.sys.DB.Dead() {
				// the server process is gone: a new one starts over the surviving database (the rest of
				// the plan counts from the restart)
				restarts++
				m.sys.CrashServer()
				m.sys.DB.Restart()
				time.Sleep(time.Second)
			}
			struck := m.sys.DB.Struck
			if err := m.sys.StartServer(); err != nil {
				if m.sys.DB.Dead() || m.sys.DB.Struck != struck {
					return nil // the next fault of the plan struck the starting server: it is started again
				}
				return viol("C08:server-does-not-restart", "after %v the server cannot start over the surviving database: %v", cs, err)
			}
			return nil
		}
		for _, a := range sc.actions {
			for i := 0; i < 5 && (m.sys.DB.Dead() || m.sys.Svc() == nil); i++ {
				if vv := recoverServer(); vv != nil {
					v = vv
					return
				}
			}
			if vv := safeApply(m, a); vv != nil {
				vv.Sig = vv.Sig + ":during-" + tag
				v = vv
				return
			}
		}
		m.sys.DB.SetPlan(nil)
		for i := 0; i < 5 && (m.sys.DB.Dead() || m.sys.Svc() == nil); i++ {
			if vv := recoverServer(); vv != nil {
				v = vv
				return
			}
		}
		ncmd = m.sys.DB.NumCommands() - base
		// no more faults: the REST callers whose patch was answered with an error try again (now it must succeed) ...
		retry := m.failedPatches
		m.failedPatches = nil
		m.p.Tolerant = false
		for _, a := range retry {
			if vv := safeApply(m, a); vv != nil {
				vv.Sig = vv.Sig + ":retried-after-" + tag
				v = vv
				return
			}
		}
		m.p.Tolerant = true
		// ... and every client retries until quiescence
		for _, o := range []string{"converge", "applied", "issued", "reference", "log"} {
			m.oracles[o] = true
		}
		if vv := safeClose(m); vv != nil {
			vv.Sig = vv.Sig + ":after-" + tag
			v = vv
			return
		}
		if vv := m.checkLog(); vv != nil {
			vv.Sig = vv.Sig + ":after-" + tag
			v = vv
			return
		}
		if vv := m.checkSnapshots(); vv != nil {
			vv.Sig = vv.Sig + ":after-" + tag
			v = vv
			return
		}
		var errs int
		for _, c := range m.cls {
			for k := range c.dts {
				_, e, _ := c.h.Events(k)
				errs += len(e)
			}
		}
		outcome = fmt.Sprintf("struck=%d/%d restarts=%d client-errors=%d cmds=%d", m.sys.DB.Struck, len(cs.Faults), restarts, errs, ncmd)
	})
	return
}

// c08Cases enumerates the fault plans of a scenario issuing n commands: every single fault; every pair
// (both kinds each, second fault within `win2` commands of the first strike / restart); every triple of
// equal kinds within `win3`.
func c08Cases(name string, n int, kinds []string, win2, win3 int) []c08Case {
	var cases []c08Case
	F := func(k string, a int) mongofake.Fault { return mongofake.Fault{Kind: k, After: a} }
	for _, k1 := range kinds {
		for a := 1; a <= n; a++ {
			cases = append(cases, c08Case{name, []mongofake.Fault{F(k1, a)}})
		}
	}
	for _, k1 := range kinds {
		for _, k2 := range kinds {
			for a := 1; a <= n; a++ {
				for b := 1; b <= win2; b++ {
					cases = append(cases, c08Case{name, []mongofake.Fault{F(k1, a), F(k2, b)}})
				}
			}
		}
	}
	for _, k1 := range kinds {
		for a := 1; a <= n; a++ {
			for b := 1; b <= win3; b++ {
				for c := 1; c <= win3; c++ {
					cases = append(cases, c08Case{name, []mongofake.Fault{F(k1, a), F(k1, b), F(k1, c)}})
				}
			}
		}
	}
	return cases
}

func init() {
	jobKinds["dbfault"] = func(job *pt.Job, emit func(pt.Line, bool)) {
		var p struct {
			Win2      int      `json:"win2"`
			Win3      int      `json:"win3"`
			Scenarios []string `json:"scenarios"`
		}
		json.Unmarshal(job.Params, &p)
		var ex struct {
			Skip []int `json:"skip"`
		}
		json.Unmarshal(job.Extra, &ex)
		skip := map[int]bool{}
		for _, k := range ex.Skip {
			skip[k] = true
		}
		var cases []c08Case
		byName := map[string]c08Scenario{}
		for si, sc := range c08Scenarios() {
			if len(p.Scenarios) > 0 && !contains(p.Scenarios, sc.name) {
				continue
			}
			byName[sc.name] = sc
			n, _, v := c08Run(curT, sc, c08Case{Scenario: sc.name})
			if v != nil {
				eb, _ := json.Marshal(c08Case{Scenario: sc.name})
				b, _ := json.Marshal(pt.CaseOut{Name: sc.name + "/fault-free", Viol: v, Extra: eb})
				if job.Shard == 0 {
					emit(pt.Line{I: 100000 + si, Done: true, Info: b}, true)
				}
				continue
			}
			cases = append(cases, c08Cases(sc.name, n, []string{"fail", "crash", "crashb"}, p.Win2, p.Win3)...)
		}
		for i, cs := range cases {
			if (job.Shards > 0 && i%job.Shards != job.Shard) || skip[i] {
				continue
			}
			ii := i
			eb, _ := json.Marshal(cs)
			emit(pt.Line{Start: &ii, I: i, Info: eb}, true)
			curCase = i
			_, out, v := c08Run(curT, byName[cs.Scenario], cs)
			b, _ := json.Marshal(pt.CaseOut{Name: fmt.Sprintf("%s/%s", cs.Scenario, cs.kinds()), Outcome: out, Transitions: len(byName[cs.Scenario].actions), Viol: v, Extra: eb})
			emit(pt.Line{I: i, Done: true, Info: b}, false)
		}
		b, _ := json.Marshal(pt.ShardInfo{Exhaustive: true})
		emit(pt.Line{I: -1, Done: true, Info: b}, true)
	}
	jobKinds["dbfault-replay"] = func(job *pt.Job, emit func(pt.Line, bool)) {
		var cs c08Case
		json.Unmarshal(job.Extra, &cs)
		for _, sc := range c08Scenarios() {
			if sc.name == cs.Scenario {
				_, out, v := c08Run(curT, sc, cs)
				b, _ := json.Marshal(ReplayInfo{Steps: []string{fmt.Sprintf("%+v -> %s", cs, out)}, Viol: v})
				emit(pt.Line{Done: true, Info: b}, true)
			}
		}
	}
}

func contains(l []string, s string) bool {
	for _, x := range l {
		if x == s {
			return true
		}
	}
	return false
}
