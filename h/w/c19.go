package w

import (
	"encoding/json"
	"fmt"
	"sort"
	"strings"

	"github.com/orda-io/orda/client/pkg/model"
	"github.com/orda-io/orda/client/pkg/operations"

	"verif/h/pt"
)

// C19 (client part): for every ordered pair (current document, target object) of a generated set,
// PatchByJSON leaves the document equal to the target, emits one unit, and brings a second replica
// to the same value. The set is explored as a breadth-first search of depth 2 (first patch builds
// the source from the empty document, second patch goes source -> target) or 3 (chains).

// c19Docs generates the document set: keys {a, b, a/b, ~k}, values primitive / object / array,
// depth <= 2, width <= 2, plus keys made of JSON-pointer escape sequences.
func c19Docs(size string) []string {
	prims := []interface{}{"s", 1.0, true}
	leaves := []interface{}{"s", 2.0, false, map[string]interface{}{}, []interface{}{}}
	vals := []interface{}{}
	vals = append(vals, prims...)
	vals = append(vals,
		map[string]interface{}{},
		[]interface{}{},
		map[string]interface{}{"x": "s"},
		map[string]interface{}{"x": 1.0, "y": []interface{}{"e"}},
		map[string]interface{}{"a/b": "t", "~k": 3.0},
		[]interface{}{"e1"},
		[]interface{}{"e1", "e2"},
		[]interface{}{"e2", "e1"},
		[]interface{}{"e1", "e2", "e3"},
		[]interface{}{"e3", "e1", "e2"},
		[]interface{}{"e2", "e1", "e3"},
		[]interface{}{map[string]interface{}{"x": "s"}, "e2"},
		[]interface{}{[]interface{}{"n"}, 1.0},
	)
	if size == "large" {
		for _, l := range leaves {
			vals = append(vals, map[string]interface{}{"x": l, "y": "k"}, []interface{}{l, "z"})
		}
	}
	keys := []string{"a", "b", "a/b", "~k"}
	set := map[string]bool{"{}": true}
	add := func(m map[string]interface{}) { set[jsonStr(m)] = true }
	for _, k := range keys {
		for _, v := range vals {
			add(map[string]interface{}{k: v})
		}
	}
	// two keys
	pairVals := []interface{}{"s", map[string]interface{}{"x": "s"}, []interface{}{"e1", "e2"}}
	for i, k1 := range keys {
		for _, k2 := range keys[i+1:] {
			for _, v1 := range pairVals {
				for _, v2 := range pairVals {
					if size != "large" && (k1 != "a" || (k2 != "b" && k2 != "a/b")) {
						continue
					}
					add(map[string]interface{}{k1: v1, k2: v2})
				}
			}
		}
	}
	// JSON-pointer escaping: keys whose text contains the escape sequences themselves ("~1", "~0", "~01")
	// next to the characters they stand for, at the top level and as parent of an in-place edit
	for _, k := range []string{"x~1y", "~0", "~01", "x/y"} {
		add(map[string]interface{}{k: "s"})
		add(map[string]interface{}{k: map[string]interface{}{"x": "s"}})
		add(map[string]interface{}{k: map[string]interface{}{"x": "t", "x~1y": "u"}})
	}
	add(map[string]interface{}{"x~1y": "v", "x/y": "w"})
	add(map[string]interface{}{"~0": "v", "~": "w", "~01": "x", "/": "y"})
	out := make([]string, 0, len(set))
	for k := range set {
		out = append(out, k)
	}
	sort.Strings(out)
	return out
}

type c19Machine struct {
	w     *World
	docs  []string
	last  string
	depth int
	merge bool // patches on both replicas, relative to what each shows, with syncs in between
}

func init() {
	registry["C19"] = func(params json.RawMessage) Machine {
		var p WParams
		json.Unmarshal(params, &p)
		p.Type, p.N = "doc", 2
		m := &c19Machine{w: NewWorld(p), docs: c19Docs(p.Alpha)}
		if strings.Contains(p.Alpha, "merge") {
			// both replicas share {"arr":[e0,e1,e2]}; then, without syncing, replica 0 patches two elements onto the end and
			// replica 1 one: the start state of patch chains with merges in between
			m.merge = true
			m.w.Step(pt.Action{Op: "patch", R: 0, V: `{"arr":["e0","e1","e2"]}`})
			m.w.CloseSyncs()
			// (the single element comes from the replica whose id wins ties: it lands in front of the other's two)
			m.w.Step(pt.Action{Op: "patch", R: 0, V: `{"arr":["e0","e1","e2","b1","b2"]}`})
			// replica 1 is a few operations ahead when it appends, so its element is the newer sibling behind e2 and lands
			// in front of b1 when the two meet
			m.w.Step(pt.Action{Op: "patch", R: 1, V: `{"arr":["y1","e1","e2"]}`})
			m.w.Step(pt.Action{Op: "patch", R: 1, V: `{"arr":["y2","e1","e2"]}`})
			m.w.Step(pt.Action{Op: "patch", R: 1, V: `{"arr":["y2","e1","e2","a1"]}`})
		}
		return m
	}
}

// mergeTargets: targets relative to what replica r shows now: one or two elements more at the end, one element
// replaced (first, middle, the last two), one element less (first, last).
func (m *c19Machine) mergeTargets(ri int) []string {
	r := m.w.reps[ri]
	cur, _ := r.doc.GetValue().(map[string]interface{})
	arr, _ := cur["arr"].([]interface{})
	n := len(arr)
	mk := func(a []interface{}) string { return canonJSON(jsonStr(map[string]interface{}{"arr": a})) }
	tag := func(k int) string { return fmt.Sprintf("p%d_%d_%d", ri, m.depth, k) }
	var out []string
	out = append(out, mk(append(append([]interface{}{}, arr...), tag(0))))
	out = append(out, mk(append(append([]interface{}{}, arr...), tag(0), tag(1))))
	for _, i := range uniq(0, n/2, n-2, n-1) {
		if i < 0 || i >= n {
			continue
		}
		c := append([]interface{}{}, arr...)
		c[i] = tag(2)
		out = append(out, mk(c))
	}
	for _, i := range uniq(0, n-1) {
		if i < 0 || i >= n {
			continue
		}
		c := append(append([]interface{}{}, arr[:i]...), arr[i+1:]...)
		out = append(out, mk(c))
	}
	return out
}

func (m *c19Machine) Enabled() []pt.Action {
	if m.merge {
		var as []pt.Action
		for ri := range m.w.reps {
			for _, t := range m.mergeTargets(ri) {
				as = append(as, pt.Action{Op: "patch", R: ri, V: t})
			}
			as = append(as, pt.Action{Op: "sync", R: ri})
		}
		return as
	}
	cur := canonJSON(jsonStr(m.w.reps[0].doc.GetValue()))
	var as []pt.Action
	for _, d := range m.docs {
		if d != cur {
			as = append(as, pt.Action{Op: "patch", R: 0, V: d})
		}
	}
	// a nested object patched through its own handle: the handle reads the target, the root reads as before with that member replaced
	if curv, ok := m.w.reps[0].doc.GetValue().(map[string]interface{}); ok {
		keys := make([]string, 0, len(curv))
		for k := range curv {
			keys = append(keys, k)
		}
		sort.Strings(keys)
		for _, k := range keys {
			if mv, isObj := curv[k].(map[string]interface{}); isObj && !strings.ContainsAny(k, "/~") {
				t := map[string]interface{}{"zz": "t", "yy": []interface{}{"u"}}
				for mk, v := range mv {
					if mk != "x" { // (one member of the old value goes)
						t[mk] = v
					}
				}
				as = append(as, pt.Action{Op: "subpatch", R: 0, K: k, V: canonJSON(jsonStr(t))})
				break
			}
		}
	}
	for _, bad := range []string{`[1]`, `1`, `"s"`, `null`, `{"a":`} { // not a JSON object: must be refused, inert
		as = append(as, pt.Action{Op: "patch", R: 0, V: bad, K: "invalid"})
	}
	return as
}

func (m *c19Machine) Key() (string, bool) {
	k, _ := m.w.Key()
	return k, m.depth >= 2
}
func (m *c19Machine) Outcome() string { return m.last }

func shapeOf(s string) string { // coarse class of a document for signatures
	var v map[string]interface{}
	json.Unmarshal([]byte(s), &v)
	cls := ""
	keys := make([]string, 0, len(v))
	for k := range v {
		keys = append(keys, k)
	}
	sort.Strings(keys)
	for _, k := range keys {
		switch v[k].(type) {
		case map[string]interface{}:
			cls += k + ":obj,"
		case []interface{}:
			cls += k + ":arr,"
		default:
			cls += k + ":prim,"
		}
	}
	return "{" + cls + "}"
}

func (m *c19Machine) Apply(a pt.Action) *pt.Violation {
	r := m.w.reps[a.R]
	src := canonJSON(jsonStr(r.doc.GetValue()))
	npend := len(m.w.Pending(a.R))
	if a.Op == "subpatch" {
		m.depth++
		want, _ := r.doc.GetValue().(map[string]interface{})
		var tv interface{}
		json.Unmarshal([]byte(a.V), &tv)
		wantRoot := map[string]interface{}{}
		for k, v := range want {
			wantRoot[k] = v
		}
		wantRoot[a.K] = tv
		h, err := r.doc.GetFromObject(a.K)
		if err != nil || h == nil {
			return viol("C19:harness:no-handle", "no handle for member %q", a.K)
		}
		var perr interface{}
		var perrE error
		func() {
			defer func() { perr = recover() }()
			if _, e := h.PatchByJSON(a.V); e != nil {
				perrE = e
			}
		}()
		m.last = fmt.Sprintf("subpatch err=%v panic=%v", perrE != nil, perr != nil)
		if perr != nil {
			return viol("C19:patch-panics:nested-handle", "PatchByJSON(%s) on the handle of member %q of %s panicked: %v", a.V, a.K, src, perr)
		}
		if perrE != nil {
			return viol("C19:patch-refused:nested-handle", "PatchByJSON(%s) on the handle of member %q of %s returned %v", a.V, a.K, src, perrE)
		}
		if got := canonJSON(jsonStr(r.doc.GetValue())); got != canonJSON(jsonStr(wantRoot)) {
			return viol("C19:patched-value-differs:nested-handle", "member %q of %s patched through its handle to %s: the document reads %s, expected %s", a.K, src, a.V, got, canonJSON(jsonStr(wantRoot)))
		}
		return nil
	}
	out := m.w.Step(a)
	m.depth++
	if a.Op == "sync" {
		m.last = out.Err
		if out.Err != "" {
			return viol("C19:remote-apply-error", "replica %d could not apply the other replica's patch operations: %s %v", a.R, out.Err, m.w.errs)
		}
		return nil
	}
	m.last = fmt.Sprintf("%s|%s", out.Err, out.Ret)
	cls := shapeOf(src) + "->" + shapeOf(a.V)
	if strings.ContainsAny(src+a.V, "/~") {
		cls = "key-needs-pointer-escaping"
	}
	if a.K == "invalid" {
		before := canonJSON(src)
		if out.Panic != "" {
			return viol("C19:non-object-target-panics", "PatchByJSON(%s) panicked: %s", a.V, out.Panic)
		}
		if out.Err == "" {
			return viol("C19:non-object-target-accepted", "PatchByJSON(%s) returned no error", a.V)
		}
		if got := canonJSON(jsonStr(r.doc.GetValue())); got != before {
			return viol("C19:refused-patch-changed-document", "PatchByJSON(%s) failed but the document changed from %s to %s", a.V, before, got)
		}
		if len(m.w.Pending(a.R)) != npend {
			return viol("C19:refused-patch-queued-operations", "PatchByJSON(%s) failed but queued operations", a.V)
		}
		return nil
	}
	if out.Panic != "" {
		return viol("C19:patch-panics:"+cls, "PatchByJSON(%s) on %s panicked: %s", a.V, src, out.Panic)
	}
	if out.Err != "" {
		return viol("C19:patch-refused:"+cls, "PatchByJSON(%s) on %s returned %s", a.V, src, out.Err)
	}
	got := canonJSON(jsonStr(r.doc.GetValue()))
	if got != canonJSON(a.V) {
		return viol("C19:patched-value-differs:"+cls, "document %s patched to target %s reads %s", src, a.V, got)
	}
	unit := m.w.Pending(a.R)[npend:]
	if len(unit) > 1 {
		if unit[0].OpType != model.TypeOfOperation_TRANSACTION {
			return viol("C19:patch-not-one-unit", "patch %s -> %s emitted %d operations without a transaction header", src, a.V, len(unit))
		}
		tx := operations.ModelToOperation(unit[0]).(*operations.TransactionOperation)
		if int(tx.GetNumOfOps()) != len(unit) {
			return viol("C19:patch-not-one-unit", "patch %s -> %s: header announces %d operations, %d emitted", src, a.V, tx.GetNumOfOps(), len(unit))
		}
	}
	return nil
}

func (m *c19Machine) Close() *pt.Violation {
	if m.merge {
		m.w.CloseSyncs()
		if len(m.w.errs) > 0 {
			return viol("C19:remote-apply-error", "a replica could not apply the other's patch operations: %v", m.w.errs)
		}
		if a, b := m.w.reps[0].View(), m.w.reps[1].View(); a != b {
			return viol("C19:replicas-differ-after-patches", "after every replica received everything the views differ:\n r0 %s\n r1 %s", a, b)
		}
		return nil
	}
	want := canonJSON(jsonStr(m.w.reps[0].doc.GetValue()))
	m.w.CloseSyncs()
	if len(m.w.errs) > 0 {
		return viol("C19:remote-apply-error", "the second replica could not apply the patch operations: %v", m.w.errs)
	}
	got := canonJSON(jsonStr(m.w.reps[1].doc.GetValue()))
	if got != want {
		return viol("C19:replica-differs-after-patch", "after delivery the second replica reads %s, the patched one %s", got, want)
	}
	if a, b := m.w.reps[0].View(), m.w.reps[1].View(); a != b {
		return viol("C19:replica-differs-after-patch", "views differ:\n r0 %s\n r1 %s", a, b)
	}
	return nil
}
