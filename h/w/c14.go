package w

import (
	"bytes"
	"context"
	"encoding/json"
	"fmt"
	"math"
	"strings"
	"time"

	"github.com/orda-io/orda/client/pkg/errors"
	"github.com/orda-io/orda/client/pkg/model"
	"github.com/orda-io/orda/client/pkg/operations"
	"github.com/orda-io/orda/client/pkg/orda"
	"github.com/orda-io/orda/server/schema"
	"github.com/orda-io/orda/server/service"
	"go.mongodb.org/mongo-driver/bson"
	"google.golang.org/protobuf/proto"

	"verif/h/pt"
)

// C14: every operation the public API can produce, for every value of a bounded grammar of
// JSON-representable Go values, survives model conversion, protobuf, BSON storage and the echo
// service with the same identifier, type, body and effect.

type namedValue struct {
	name string
	v    interface{}
}

// c14Null: values that are JSON null on the wire: not values; the API must refuse them (error, no panic).
var c14Null = map[string]bool{"nil-slice": true, "nil-map": true}

// c14NotJSON: values that JSON cannot carry at all (or not unchanged): the API may refuse them with an error; if it
// accepts them, every replica must end up with the same value as the origin.
var c14NotJSON = map[string]bool{"f-nan": true, "f-inf": true, "map-boolkey": true, "s-invalid-utf8": true, "chan": true}

type embedInner struct {
	X int `json:"x"`
}
type embedOuter struct {
	embedInner
	Y string `json:"y"`
}

type tagged struct {
	A int    `json:"a"`
	B string `json:"b"`
}
type untagged struct {
	X float64
	Y []string
}
type nestedStruct struct {
	In  tagged            `json:"in"`
	L   []int             `json:"l"`
	M   map[string]string `json:"m"`
	Ptr *tagged           `json:"ptr"`
}

func ptr[T any](v T) *T { return &v }

// c14Values is the value grammar (DESIGN.md §5 C14); deep=true adds the thorough-tier shapes.
func c14Values(deep bool) []namedValue {
	vs := []namedValue{
		{"int0", 0}, {"int1", 1}, {"int-1", -1}, {"intmax", math.MaxInt64}, {"intmin", math.MinInt64},
		{"int8min", int8(math.MinInt8)}, {"int8max", int8(math.MaxInt8)}, {"int16min", int16(math.MinInt16)}, {"int16max", int16(math.MaxInt16)},
		{"int32min", int32(math.MinInt32)}, {"int32max", int32(math.MaxInt32)}, {"int64-2^53+1", int64(1<<53 + 1)}, {"int64-2^53-1", int64(1<<53 - 1)},
		{"uint0", uint(0)}, {"uint8max", uint8(math.MaxUint8)}, {"uint16max", uint16(math.MaxUint16)}, {"uint32max", uint32(math.MaxUint32)},
		{"uint64max", uint64(math.MaxUint64)}, {"uintmax", uint(math.MaxUint64)},
		{"f0", 0.0}, {"f-0", math.Copysign(0, -1)}, {"f1.5", 1.5}, {"fmax", math.MaxFloat64}, {"fsub", math.SmallestNonzeroFloat64},
		{"f32", float32(3.25)}, {"f32max", float32(math.MaxFloat32)}, {"f1e21", 1e21}, {"f-1e-7", -1e-7},
		{"true", true}, {"false", false},
		{"s-empty", ""}, {"s-ascii", "hello"}, {"s-bmp", "héllo wörld ☃"}, {"s-astral", "😀𝄞"}, {"s-nul", "a\x00b"},
		{"s-2028", "line sep "}, {"s-quotes", `"q" \ / 'x'`}, {"s-pointer", "a/b~c~0~1.$k"}, {"s-html", "<a href=\"x\">&amp;</a>"},
		{"s-ctrl", "\t\n\r\b\f\x1f"},
		// text that merely LOOKS like an escape of one of the layers it passes (JSON, HTML, printf, URL, BSON): it is data
		{"s-escapes-as-text", `\u0026 \u003c\u003e \u2028 \n\t \" \\ \/ \x41 %s %d %% %41 &lt; &#38; $oid`}, {"s-backslash-end", `ends with \`},
		{"p-int", ptr(42)}, {"p-int8", ptr(int8(-8))}, {"p-uint64", ptr(uint64(math.MaxUint64))}, {"p-f64", ptr(2.5)}, {"p-f32", ptr(float32(1.25))},
		{"p-string", ptr("ps")}, {"p-bool", ptr(true)},
		{"struct-tagged", tagged{A: 1, B: "b"}}, {"struct-untagged", untagged{X: 1.5, Y: []string{"y"}}}, {"p-struct", &tagged{A: 2, B: "pb"}},
		{"map-iface", map[string]interface{}{"k1": "v", "k2": 2.0}}, {"map-empty", map[string]interface{}{}},
		{"slice-iface", []interface{}{"a", 1.0, true}}, {"slice-empty", []interface{}{}},
		{"slice-string", []string{"x", "y"}}, {"slice-int", []int{1, 2, 3}}, {"array-int", [2]int{7, 8}},
		{"map-string", map[string]string{"a": "b"}}, {"map-int", map[string]int{"one": 1, "two": 2}},
		{"nested-2", map[string]interface{}{"o": map[string]interface{}{"p": "q"}, "l": []interface{}{1.0, "two"}}},
		// maps whose keys are not strings (encoding/json writes integer keys as strings); many entries, nested values:
		// the members' identifiers must not depend on the order in which Go happens to enumerate the keys
		{"map-intkey-12", intKeyed(12)}, {"map-uint8key-slices", map[uint8][]string{3: {"a", "b"}, 1: {"c"}, 2: {"d", "e"}, 9: {"f"}, 7: {"g"}, 5: {"h"}, 4: {"i"}, 8: {"j"}}},
		{"map-int64key-nested", map[int64]map[string]int{-1: {"a": 1}, 5: {"b": 2}, 3: {"c": 3}, 10: {"d": 4}, 7: {"e": 5}, 2: {"f": 6}, 8: {"g": 7}, 6: {"h": 8}}},
		{"map-string-12-nested", strKeyedNested(12)},
		// Go values whose JSON form is not what walking them by reflection gives: bytes (base64 text), a time (RFC 3339
		// text), pre-encoded JSON, an embedded struct (its fields are promoted)
		{"bytes", []byte("abc")}, {"time", time.Unix(0, 0).UTC()}, {"raw-json", json.RawMessage(`{"x":1}`)}, {"struct-embedded", embedOuter{embedInner{1}, "y"}},
		{"f-nan", math.NaN()}, {"f-inf", math.Inf(1)}, {"map-boolkey", map[bool]int{true: 1}}, {"s-invalid-utf8", "a\xffb"},
	}
	if deep {
		vs = append(vs,
			namedValue{"s-64k", strings.Repeat("abcdefgh", 8192)},
			namedValue{"nil-slice", []interface{}(nil)},
			namedValue{"nil-map", map[string]interface{}(nil)},
			namedValue{"struct-nested", nestedStruct{In: tagged{A: 3, B: "in"}, L: []int{1}, M: map[string]string{"k": "v"}, Ptr: &tagged{A: 4}}},
			namedValue{"nested-3", map[string]interface{}{"a": []interface{}{map[string]interface{}{"b": []interface{}{"c"}}}}},
			namedValue{"slice-of-slices", [][]int{{1}, {2, 3}}},
			namedValue{"map-of-slices", map[string][]string{"k": {"v1", "v2"}}},
			namedValue{"slice-12", []interface{}{1.0, 2.0, 3.0, 4.0, 5.0, 6.0, 7.0, 8.0, 9.0, 10.0, 11.0, 12.0}},
			namedValue{"map-float", map[string]float64{"pi": 3.14}},
			namedValue{"map-bool", map[string]bool{"t": true}},
			namedValue{"keys-odd", map[string]interface{}{"": "empty", "a/b": 1.0, "~k": 2.0, "$d.o": 3.0}},
		)
	}
	return vs
}

// c14Keys: keys of map / object members the key-taking operations are repeated with ("@k<i>" suffix of
// the operation kind): JSON-pointer syntax, quotes and backslashes, control characters and DEL, line
// separators, astral and the last code point, HTML-sensitive characters, BSON-sensitive characters.
var c14Keys = []string{"a/b~c~0~1~01", `"q"\ 'x'`, "c\x00\x07\x0b\x1b\x7f", "\u2028\u2029", "\U0001F600\U0010FFFF", "<&>", "$d.o", "\t\n\r\b\f", `\u0026\n%s\`, "a\xffb"}

// keyed kinds: base operation kinds that take a key
var c14KeyedValue = []string{"map.put", "doc.put"}
var c14KeyedPlain = []string{"map.remove", "doc.delete"}

// opKinds: how a value is turned into an operation through the public API.
var c14OpKinds = []string{"map.put", "list.insert", "list.insert2", "list.update", "doc.put", "doc.arrinsert", "doc.arrupdate", "doc.put-nested"}

// non-value operations
var c14Plain = []string{"counter.inc1", "counter.incmax", "counter.incmin", "map.remove", "list.delete", "list.deletemany", "doc.delete", "doc.arrdelete", "tx",
	// batches of no values at all: accepted or refused, but whatever the origin queues must survive the wire
	"list.insert0", "list.update0", "doc.arrinsert0", "doc.arrupdate0", "tx-empty",
	// range deletes whose targets come from one insert without being neighbours in its numbering
	"doc.arrdelete-hole", "doc.arrdelete-nested", "list.deletemany-hole", "tx-longtag"}

func intKeyed(n int) map[int][]interface{} {
	m := map[int][]interface{}{}
	for i := 0; i < n; i++ {
		m[i*7%n] = []interface{}{float64(i), "v"}
	}
	return m
}

func strKeyedNested(n int) map[string]interface{} {
	m := map[string]interface{}{}
	for i := 0; i < n; i++ {
		m[fmt.Sprintf("k%02d", i*5%n)] = map[string]interface{}{"i": float64(i), "l": []interface{}{"x"}}
	}
	return m
}

func jsonEqual(a, b []byte) bool {
	// numbers are compared digit by digit (json.Number): a timestamp above 2^53 must not be "equal" to its float64 image
	dec := func(bs []byte) (interface{}, bool) {
		d := json.NewDecoder(bytes.NewReader(bs))
		d.UseNumber()
		var v interface{}
		if d.Decode(&v) != nil {
			return nil, false
		}
		return v, true
	}
	x, ok1 := dec(a)
	y, ok2 := dec(b)
	if !ok1 || !ok2 {
		return string(a) == string(b)
	}
	return jsonStr(floatValues(x, false)) == jsonStr(floatValues(y, false))
}

// floatValues turns the numbers below a member "V" (the user's values of an operation body: JSON numbers, i.e. float64
// on every replica) into float64 and leaves every other number (timestamps: era, lamport, delimiter) exact.
func floatValues(v interface{}, inValue bool) interface{} {
	switch x := v.(type) {
	case json.Number:
		if inValue {
			f, _ := x.Float64()
			return f
		}
		return x
	case map[string]interface{}:
		out := make(map[string]interface{}, len(x))
		for k, e := range x {
			out[k] = floatValues(e, inValue || k == "V")
		}
		return out
	case []interface{}:
		out := make([]interface{}, len(x))
		for i, e := range x {
			out[i] = floatValues(e, inValue)
		}
		return out
	}
	return v
}

func sameOp(a, b *model.Operation) string {
	if a.OpType != b.OpType {
		return fmt.Sprintf("type %v vs %v", a.OpType, b.OpType)
	}
	if a.ID == nil || b.ID == nil || a.ID.Era != b.ID.Era || a.ID.Lamport != b.ID.Lamport || a.ID.CUID != b.ID.CUID || a.ID.Seq != b.ID.Seq {
		return fmt.Sprintf("id %v vs %v", a.ID.ToString(), b.ID.ToString())
	}
	if a.OpType%10 == 0 { // snapshot bodies are raw
		if string(a.Body) != string(b.Body) && !jsonEqual(a.Body, b.Body) {
			return "snapshot body differs"
		}
		return ""
	}
	if !jsonEqual(a.Body, b.Body) {
		return fmt.Sprintf("body %s vs %s", clip(string(a.Body), 300), clip(string(b.Body), 300))
	}
	return ""
}

type c14Case struct {
	Kind  string
	Value string
}

type oListInTx = orda.ListInTx

func errOf(e errors.OrdaError) error {
	if e == nil {
		return nil
	}
	return e
}
func toErr2(v interface{}, e errors.OrdaError) (interface{}, error)    { return v, errOf(e) }
func toErr2s(v []interface{}, e errors.OrdaError) (interface{}, error) { return v, errOf(e) }
func toErrD(v orda.Document, e errors.OrdaError) (interface{}, error)  { return v, errOf(e) }

// c14Run executes one case; returns a violation or nil, plus a digest of the produced operations.
func c14Run(kind string, nv *namedValue) (v *pt.Violation, digest string, produced int) {
	fullKind := kind
	big := strings.HasSuffix(kind, "@big")
	kind = strings.TrimSuffix(kind, "@big")
	key, key0, objKey := "k", "k0", "obj"
	if i := strings.Index(kind, "@k"); i >= 0 {
		var ki int
		fmt.Sscanf(kind[i+2:], "%d", &ki)
		kind = kind[:i]
		key, key0, objKey = c14Keys[ki], c14Keys[ki], c14Keys[ki]
	}
	typ := map[string]string{"ma": "map", "li": "list", "do": "doc", "co": "counter", "tx": "list"}[kind[:2]]
	if kind == "tx" {
		typ = "list"
	}
	w := NewWorld(WParams{Type: typ, N: 2})
	r0 := w.reps[0]
	vname := "-"
	var val interface{}
	if nv != nil {
		vname, val = nv.name, nv.v
	}
	sig := func(what string) string { return fmt.Sprintf("C14:%s:%s:%s", what, fullKind, vname) }
	if big {
		// an operation of a third client whose logical clock is beyond 2^53 reaches both replicas first: every timestamp
		// produced from here on (operation ids, targets and parents inside operation bodies, node identifiers) has a
		// lamport that float64 cannot hold exactly
		rb := w.reps[1]
		switch typ {
		case "list":
			rb.li.Insert(0, "big")
		case "map":
			rb.mp.Put("big", "v")
		case "doc":
			rb.doc.PutToObject("big", "v")
		default:
			rb.cnt.IncreaseBy(1)
		}
		pend := w.Pending(1)
		forged := cloneOp(pend[len(pend)-1])
		forged.ID.CUID, forged.ID.Lamport, forged.ID.Seq = "zzzzzzzzzzzzzzzz", 1<<53+1, 1
		for _, rr := range w.reps {
			if _, e := rr.dt.ReceiveRemoteModelOperations([]*model.Operation{cloneOp(forged)}, false); e != nil {
				return viol(sig("harness-big-clock"), "cannot deliver the far-clock operation: %v", e), "", 0
			}
		}
	}
	// prior state
	switch typ {
	case "list":
		r0.li.InsertMany(0, "e0", "e1", "e2")
	case "map":
		r0.mp.Put("k0", "v0")
		if kind == "map.remove" {
			r0.mp.Put(key0, "v0")
		}
	case "doc":
		r0.doc.PutToObject("arr", []interface{}{"e0", "e1"})
		r0.doc.PutToObject("obj", map[string]interface{}{"x": "y"})
		if kind == "doc.delete" {
			r0.doc.PutToObject(objKey, map[string]interface{}{"x": "y"})
		}
		if strings.HasPrefix(kind, "doc.arrdelete-") {
			// elements of ONE insert that a later range delete addresses together although they are not neighbours in the
			// insert's numbering: an earlier delete left a hole / a nested value numbered its members in between
			a, _ := r0.doc.GetFromObject("arr")
			if strings.HasPrefix(kind, "doc.arrdelete-hole") {
				a.InsertToArray(0, "h0", "h1", "h2", "h3")
				a.DeleteInArray(1)
			} else {
				a.InsertToArray(0, "n0", map[string]interface{}{"k": "v"}, "n2", "n3")
			}
		}
	}
	if strings.HasPrefix(kind, "list.deletemany-hole") {
		r0.li.Delete(1)
	}
	w.Sync(0)
	w.Sync(1)
	// the other replica works three times and the origin pulls that: the origin's logical clock is now ahead of its own
	// operation count, so the (era, lamport, client, seq) of what it produces next are four different numbers - an encoder
	// or a stored form that mixes two of them up cannot go unnoticed
	r1b := w.reps[1]
	for i := 0; i < 3; i++ {
		switch typ {
		case "list":
			r1b.li.Insert(r1b.li.Size(), fmt.Sprintf("z%d", i))
		case "map":
			r1b.mp.Put("zz", fmt.Sprintf("z%d", i))
		case "doc":
			r1b.doc.PutToObject("zz", fmt.Sprintf("z%d", i))
		default:
			r1b.cnt.IncreaseBy(1)
		}
	}
	w.Sync(1)
	w.Sync(0)
	before := len(w.log)
	pendingBefore := len(w.Pending(0))
	var apiErr error
	var perr interface{}
	func() {
		defer func() { perr = recover() }()
		var e error
		switch kind {
		case "map.put":
			_, e = toErr2(r0.mp.Put(key, val))
		case "list.insert":
			_, e = toErr2(r0.li.Insert(1, val))
		case "list.insert2":
			_, e = toErr2(r0.li.InsertMany(3, val, val))
		case "list.update":
			_, e = toErr2s(r0.li.Update(0, val))
		case "doc.put":
			_, e = toErrD(r0.doc.PutToObject(key, val))
		case "doc.put-nested":
			_, e = toErrD(r0.doc.PutToObject("k", map[string]interface{}{"in": val, "l": []interface{}{val}}))
		case "doc.arrinsert":
			a, _ := r0.doc.GetFromObject("arr")
			_, e = toErrD(a.InsertToArray(1, val, val))
		case "doc.arrupdate":
			a, _ := r0.doc.GetFromObject("arr")
			_, ee := a.UpdateManyInArray(0, val)
			if ee != nil {
				e = ee
			}
		case "counter.inc1":
			_, ee := r0.cnt.IncreaseBy(1)
			e = errOf(ee)
		case "counter.incmax":
			_, ee := r0.cnt.IncreaseBy(math.MaxInt32)
			e = errOf(ee)
		case "counter.incmin":
			_, ee := r0.cnt.IncreaseBy(math.MinInt32)
			e = errOf(ee)
		case "map.remove":
			_, ee := r0.mp.Remove(key0)
			e = errOf(ee)
		case "list.delete":
			_, ee := r0.li.Delete(1)
			e = errOf(ee)
		case "list.deletemany":
			_, ee := r0.li.DeleteMany(0, 3)
			e = errOf(ee)
		case "doc.delete":
			_, ee := r0.doc.DeleteInObject(objKey)
			e = errOf(ee)
		case "doc.arrdelete":
			a, _ := r0.doc.GetFromObject("arr")
			_, ee := a.DeleteManyInArray(0, 2)
			e = errOf(ee)
		case "doc.arrdelete-hole":
			a, _ := r0.doc.GetFromObject("arr")
			_, ee := a.DeleteManyInArray(0, 2)
			e = errOf(ee)
		case "doc.arrdelete-nested":
			a, _ := r0.doc.GetFromObject("arr")
			_, ee := a.DeleteManyInArray(0, 3)
			e = errOf(ee)
		case "list.deletemany-hole":
			_, ee := r0.li.DeleteMany(0, 2)
			e = errOf(ee)
		case "list.insert0":
			_, ee := r0.li.InsertMany(1)
			e = errOf(ee)
		case "list.update0":
			_, ee := r0.li.Update(0)
			e = errOf(ee)
		case "doc.arrinsert0":
			a, _ := r0.doc.GetFromObject("arr")
			_, ee := a.InsertToArray(1)
			e = errOf(ee)
		case "doc.arrupdate0":
			a, _ := r0.doc.GetFromObject("arr")
			_, ee := a.UpdateManyInArray(0)
			e = errOf(ee)
		case "tx-empty":
			e = r0.li.Transaction("empty", func(l oListInTx) error { return nil })
		case "tx-longtag":
			// a tag of 300 bytes made of three-byte characters (any cut at a power of two falls inside a character)
			e = r0.li.Transaction(strings.Repeat("한", 100), func(l oListInTx) error { l.Insert(0, "in-tx"); return nil })
		case "tx":
			e = r0.li.Transaction("t\"ag/~", func(l oListInTx) error {
				l.Insert(0, "in-tx")
				l.Delete(1)
				return nil
			})
		}
		apiErr = e
	}()
	if perr != nil {
		return viol(sig("api-panics"), "%s with value %s (%T) panicked: %v", kind, vname, val, perr), "", 0
	}
	if nv != nil && c14Null[nv.name] && kind != "doc.put-nested" {
		if apiErr == nil {
			return viol(sig("null-value-accepted"), "%s accepted %s (%T), which is JSON null on the wire", kind, vname, val), "", 0
		}
		return nil, "refused-null", 0
	}
	if base := strings.SplitN(kind, "@", 2)[0]; strings.HasSuffix(base, "0") || base == "tx-empty" {
		if apiErr != nil {
			return nil, "empty-batch-refused", 0
		}
		if len(w.Pending(0)) == 0 {
			return nil, "empty-batch-queues-nothing", 0
		}
	}
	if nv != nil && c14NotJSON[nv.name] && apiErr != nil {
		if len(w.Pending(0)) != pendingBefore {
			return viol(sig("refused-value-queued-operations"), "%s refused %s (%T) but queued operations", kind, vname, val), "", 0
		}
		return nil, "refused-non-json-value", 0
	}
	if apiErr != nil {
		return viol(sig("api-refuses-json-value"), "%s with JSON-representable value %s (%T) returned %v", kind, vname, val, apiErr), "", 0
	}
	ops := w.Pending(0)
	if len(ops) == 0 {
		return viol(sig("no-operation"), "%s produced no operation", kind), "", 0
	}
	if strings.HasPrefix(kind, "tx") {
		// the tag the application gave its transaction is the tag every replica is told
		given := map[string]string{"tx": "t\"ag/~", "tx-empty": "empty", "tx-longtag": strings.Repeat("한", 100)}[strings.SplitN(kind, "@", 2)[0]]
		for _, m := range ops[pendingBefore:] {
			if m.OpType == model.TypeOfOperation_TRANSACTION {
				if tx, ok := operations.ModelToOperation(m).(*operations.TransactionOperation); ok && tx.GetBody().Tag != given {
					return viol(sig("transaction-tag-changed"), "%s: the transaction was given the tag %q (%d bytes), its operation carries %q (%d bytes)", kind, clip(given, 80), len(given), clip(tx.GetBody().Tag, 80), len(tx.GetBody().Tag)), "", len(ops)
				}
				break
			}
		}
	}
	// value fidelity: what the origin reads back is the JSON image of what the caller passed
	if nv != nil {
		var got interface{}
		have := true
		switch kind {
		case "map.put":
			got = r0.mp.Get(key)
		case "list.insert":
			got, _ = r0.li.Get(1)
		case "list.update":
			got, _ = r0.li.Get(0)
		case "doc.put":
			if d, _ := r0.doc.GetFromObject(key); d != nil {
				got = d.GetValue()
			}
		case "doc.arrupdate":
			a, _ := r0.doc.GetFromObject("arr")
			if d, _ := a.GetFromArray(0); d != nil {
				got = d.GetValue()
			}
		default:
			have = false
		}
		if have {
			wantB, err := json.Marshal(val)
			if err == nil && canonJSON(string(wantB)) != canonJSON(jsonStr(got)) {
				return viol(sig("value-changed"), "%s value %s (%T): caller passed %s, origin reads back %s", kind, vname, val, clip(string(wantB), 200), clip(jsonStr(got), 200)), "", len(ops)
			}
		}
	}
	var delivered []*model.Operation
	for _, m := range ops {
		var fail string
		func() {
			defer func() {
				if p := recover(); p != nil {
					fail = fmt.Sprintf("decoder panicked: %v", p)
				}
			}()
			// (1) model -> typed operation -> model
			if d := sameOp(m, operations.ModelToOperation(m).ToModelOperation()); d != "" {
				fail = "model round trip: " + d
				return
			}
			// (2) protobuf
			pb, err := proto.Marshal(m)
			if err != nil {
				fail = "proto.Marshal: " + err.Error()
				return
			}
			var m2 model.Operation
			if err := proto.Unmarshal(pb, &m2); err != nil {
				fail = "proto.Unmarshal: " + err.Error()
				return
			}
			if d := sameOp(m, &m2); d != "" {
				fail = "protobuf round trip: " + d
				return
			}
			// (3) storage document
			doc := schema.NewOperationDoc(&m2, "duid", 7, 1)
			bb, err := bson.Marshal(doc)
			if err != nil {
				fail = "bson.Marshal: " + err.Error()
				return
			}
			var doc2 schema.OperationDoc
			if err := bson.Unmarshal(bb, &doc2); err != nil {
				fail = "bson.Unmarshal: " + err.Error()
				return
			}
			m3 := doc2.GetOperation()
			if d := sameOp(m, m3); d != "" {
				fail = "BSON round trip: " + d
				return
			}
			// (4) echo service
			svc := service.NewOrdaService(nil)
			em, err := svc.TestEncodingOperation(context.Background(), &model.EncodingMessage{Type: w.typ, Op: cloneOp(m)})
			if err != nil || em == nil || em.Op == nil {
				fail = fmt.Sprintf("echo service: %v", err)
				return
			}
			if d := sameOp(m, em.Op); d != "" {
				fail = "echo service: " + d
				return
			}
			delivered = append(delivered, operations.ModelToOperation(m3).ToModelOperation())
		}()
		if fail != "" {
			what := strings.SplitN(fail, ":", 2)[0]
			return viol(sig("roundtrip:"+strings.ReplaceAll(what, " ", "-")), "%s value %s (%T): %s", kind, vname, val, fail), "", len(ops)
		}
		digest += fmt.Sprintf("%d:%s;", m.OpType, clip(string(m.Body), 200))
	}
	// (5) same effect: the decoded-from-storage operations applied to a replica in the origin's prior state
	r1 := w.reps[1]
	var derr error
	func() {
		defer func() { perr = recover() }()
		exact := make([]*model.Operation, len(delivered))
		copy(exact, delivered)
		if _, e := r1.dt.ReceiveRemoteModelOperations(exact, false); e != nil {
			derr = e
		}
	}()
	if perr != nil {
		return viol(sig("remote-apply-panics"), "%s value %s (%T): applying the stored operation panicked: %v", kind, vname, val, perr), digest, len(ops)
	}
	if derr != nil {
		return viol(sig("remote-apply-fails"), "%s value %s (%T): %v", kind, vname, val, derr), digest, len(ops)
	}
	if a, b := r0.View(), r1.View(); a != b {
		return viol(sig("effect-differs"), "%s value %s (%T): origin and a replica that applied the stored operation differ:\n origin: %s\n remote: %s", kind, vname, val, clip(a, 800), clip(b, 800)), digest, len(ops)
	}
	// ... and the same structure below the view: the identifiers given to what the operation created are what later
	// operations address, so the exported snapshots (not only the JSON views) must agree
	if _, sa := r0.Export(); true {
		if _, sb := r1.Export(); !jsonEqual([]byte(sa), []byte(sb)) {
			return viol(sig("effect-differs:snapshot"), "%s value %s (%T): origin and a replica that applied the stored operation show the same view but export different snapshots (identifiers of created nodes differ):\n origin: %s\n remote: %s", kind, vname, val, clip(sa, 800), clip(sb, 800)), digest, len(ops)
		}
	}
	_ = before
	return nil, digest, len(ops)
}

func init() {
	jobKinds["enum-c14"] = func(job *pt.Job, emit func(pt.Line, bool)) {
		var p struct {
			Deep bool `json:"deep"`
		}
		json.Unmarshal(job.Params, &p)
		info := pt.ShardInfo{Exhaustive: true}
		var cases []c14Case
		vals := c14Values(p.Deep)
		for _, k := range c14OpKinds {
			for i := range vals {
				cases = append(cases, c14Case{Kind: k, Value: vals[i].name})
			}
		}
		for _, k := range c14Plain {
			cases = append(cases, c14Case{Kind: k})
		}
		// the same with every logical clock beyond 2^53
		for _, k := range c14OpKinds {
			for _, vn := range []string{"s-ascii", "nested-2", "slice-iface"} {
				cases = append(cases, c14Case{Kind: k + "@big", Value: vn})
			}
		}
		for _, k := range c14Plain {
			cases = append(cases, c14Case{Kind: k + "@big"})
		}
		for ki := range c14Keys {
			for _, k := range c14KeyedValue {
				for _, vn := range []string{"s-ascii", "nested-2"} {
					cases = append(cases, c14Case{Kind: fmt.Sprintf("%s@k%d", k, ki), Value: vn})
				}
			}
			for _, k := range c14KeyedPlain {
				cases = append(cases, c14Case{Kind: fmt.Sprintf("%s@k%d", k, ki)})
			}
		}
		byName := map[string]*namedValue{}
		for i := range vals {
			byName[vals[i].name] = &vals[i]
		}
		digests := map[string]bool{}
		for i, c := range cases {
			if job.Shards > 0 && i%job.Shards != job.Shard {
				continue
			}
			var nv *namedValue
			if c.Value != "" {
				nv = byName[c.Value]
			}
			v, dg, n := c14Run(c.Kind, nv)
			info.Evaluations++
			info.Transitions += n
			if dg != "" {
				digests[c.Kind+"|"+dg] = true
			}
			if v != nil {
				eb, _ := json.Marshal(c)
				info.Violations = append(info.Violations, pt.ShardViol{Viol: *v, Extra: eb})
			}
			if len(info.Samples) < 3 && dg != "" {
				info.Samples = append(info.Samples, map[string]string{"op": c.Kind, "value": c.Value, "operations": dg})
			}
		}
		info.States = info.Evaluations
		for k := range digests {
			info.Nontrivial = append(info.Nontrivial, k)
		}
		b, _ := json.Marshal(info)
		emit(pt.Line{Done: true, Info: b}, true)
	}
	jobKinds["enum-c14-replay"] = func(job *pt.Job, emit func(pt.Line, bool)) {
		var c struct{ Kind, Value string }
		json.Unmarshal(job.Extra, &c)
		var nv *namedValue
		for _, x := range c14Values(true) {
			if x.name == c.Value {
				xx := x
				nv = &xx
			}
		}
		v, dg, _ := c14Run(c.Kind, nv)
		b, _ := json.Marshal(ReplayInfo{Steps: []string{c.Kind + " " + c.Value + " -> " + dg}, Viol: v})
		emit(pt.Line{Done: true, Info: b}, true)
	}
}
