package w

import (
	"fmt"
	"sort"
	"strings"

	"github.com/orda-io/orda/client/pkg/model"
	"github.com/orda-io/orda/client/pkg/operations"
)

// C02 reference: the outcome as a function of the *set* of emitted operations only (ids, target
// ids, values as found on the wire). Nothing here looks at arrival order.

func tsLess(a, b *model.Timestamp) bool { // (era, lamport, cuid); delimiter is not part of the order
	if a.Era != b.Era {
		return a.Era < b.Era
	}
	if a.Lamport != b.Lamport {
		return a.Lamport < b.Lamport
	}
	return a.CUID < b.CUID
}

func tsKey(t *model.Timestamp) string { return tsStr(t) }

// idCount is the number of identifiers a value consumes when it is turned into document nodes.
func idCount(v interface{}) uint32 {
	switch x := v.(type) {
	case map[string]interface{}:
		n := uint32(1)
		for _, c := range x {
			n += idCount(c)
		}
		return n
	case []interface{}:
		n := uint32(1)
		for _, c := range x {
			n += idCount(c)
		}
		return n
	}
	return 1
}

// ---- list (RGA tree) ----

type refElem struct {
	id      *model.Timestamp
	anchor  string
	val     interface{}
	valTime *model.Timestamp
	deleted bool
	kids    []*refElem
	cont    *refCont // for document arrays: the current value as a container (nil for primitive)
}

type refSeq struct {
	elems map[string]*refElem
	root  *refElem
}

func newRefSeq() *refSeq {
	head := &refElem{id: model.OldestTimestamp()}
	return &refSeq{elems: map[string]*refElem{tsKey(head.id): head}, root: head}
}

func (s *refSeq) insert(anchor *model.Timestamp, ids []*model.Timestamp, vals []interface{}) error {
	a := tsKey(anchor)
	for i, id := range ids {
		e := &refElem{id: id, anchor: a, val: vals[i], valTime: id}
		s.elems[tsKey(id)] = e
		a = tsKey(id)
	}
	return nil
}

// link builds the tree after all inserts are known (anchors may be defined by later set members).
func (s *refSeq) link() error {
	for _, e := range s.elems {
		e.kids = nil
	}
	keys := make([]string, 0, len(s.elems))
	for k := range s.elems {
		keys = append(keys, k)
	}
	sort.Strings(keys)
	for _, k := range keys {
		e := s.elems[k]
		if e == s.root {
			continue
		}
		p, ok := s.elems[e.anchor]
		if !ok {
			return fmt.Errorf("anchor %s of element %s is not in the operation set", e.anchor, k)
		}
		p.kids = append(p.kids, e)
	}
	for _, e := range s.elems {
		sort.Slice(e.kids, func(i, j int) bool { return tsLess(e.kids[j].id, e.kids[i].id) }) // newest first
	}
	return nil
}

func (s *refSeq) live() []*refElem {
	var out []*refElem
	var walk func(e *refElem)
	walk = func(e *refElem) {
		if e != s.root && !e.deleted {
			out = append(out, e)
		}
		for _, k := range e.kids {
			walk(k)
		}
	}
	walk(s.root)
	return out
}

// ---- document ----

type refSlot struct {
	time *model.Timestamp // timestamp of the winning put / remove
	val  *refCont         // container value (nil if primitive or removed)
	prim interface{}
	gone bool
}

// refCont is a container identified by its creation id.
type refCont struct {
	id   string
	kind byte // 'o' | 'a'
	keys map[string]*refSlot
	seq  *refSeq
}

type refDoc struct {
	conts map[string]*refCont
	root  *refCont
}

func newRefDoc() *refDoc {
	root := &refCont{id: tsKey(model.OldestTimestamp()), kind: 'o', keys: map[string]*refSlot{}}
	return &refDoc{conts: map[string]*refCont{root.id: root}, root: root}
}

// mk builds the value v whose top-level identifier is ts (delimiter included); nested containers
// get no resolvable identity (C02's alphabet never addresses them).
func (d *refDoc) mk(v interface{}, ts *model.Timestamp) (*refCont, interface{}) {
	switch x := v.(type) {
	case map[string]interface{}:
		c := &refCont{id: tsKey(ts), kind: 'o', keys: map[string]*refSlot{}}
		for k, cv := range x {
			sc, sp := d.mk(cv, &model.Timestamp{Era: ts.Era, Lamport: ts.Lamport, CUID: ts.CUID, Delimiter: 1 << 30})
			if sc != nil {
				sc.id = "nested"
			}
			c.keys[k] = &refSlot{time: ts, val: sc, prim: sp}
		}
		d.conts[c.id] = c
		return c, nil
	case []interface{}:
		c := &refCont{id: tsKey(ts), kind: 'a', seq: newRefSeq()}
		anchor := model.OldestTimestamp()
		// array elements get consecutive identifiers in slice order (deterministic, unlike object members)
		delim := ts.Delimiter + 1
		nested := ts.Delimiter >= 1<<30
		for i, cv := range x {
			id := &model.Timestamp{Era: ts.Era, Lamport: ts.Lamport, CUID: ts.CUID, Delimiter: delim}
			if nested {
				id.Delimiter = ts.Delimiter + 1 + uint32(i)
			}
			sc, sp := d.mk(cv, id)
			c.seq.insert(anchor, []*model.Timestamp{id}, []interface{}{sp})
			c.seq.elems[tsKey(id)].cont = sc
			anchor = id
			delim += idCount(cv)
		}
		d.conts[c.id] = c
		return c, nil
	}
	return nil, v
}

func (c *refCont) value() interface{} {
	if c.kind == 'o' {
		m := map[string]interface{}{}
		for k, s := range c.keys {
			if s.gone {
				continue
			}
			if s.val != nil {
				m[k] = s.val.value()
			} else {
				m[k] = s.prim
			}
		}
		return m
	}
	out := []interface{}{}
	c.seq.link()
	for _, e := range c.seq.live() {
		if e.cont != nil {
			out = append(out, e.cont.value())
		} else {
			out = append(out, e.val)
		}
	}
	return out
}

// valueReads mirrors docReads on a plain JSON value.
func valueReads(sb *strings.Builder, v interface{}) {
	switch x := v.(type) {
	case map[string]interface{}:
		keys := make([]string, 0, len(x))
		for k := range x {
			keys = append(keys, k)
		}
		sort.Strings(keys)
		sb.WriteString("{")
		for _, k := range keys {
			fmt.Fprintf(sb, "%q:", k)
			valueReads(sb, x[k])
			sb.WriteString(",")
		}
		sb.WriteString("}")
	case []interface{}:
		sb.WriteString("[")
		for _, e := range x {
			valueReads(sb, e)
			sb.WriteString(",")
		}
		sb.WriteString("]")
	default:
		sb.WriteString(jsonStr(v))
	}
}

func withDelim(id *model.OperationID, d uint32) *model.Timestamp {
	return &model.Timestamp{Era: id.Era, Lamport: id.Lamport, CUID: id.CUID, Delimiter: d}
}

// referenceView computes the expected readable state from the operation set.
func referenceView(typ string, ops []*model.Operation) (string, error) {
	// order-independence by construction: process a canonical order of the set, all rules are max/sum/union
	sorted := append([]*model.Operation{}, ops...)
	sort.SliceStable(sorted, func(i, j int) bool {
		a, b := sorted[i].ID, sorted[j].ID
		if a.Lamport != b.Lamport {
			return a.Lamport < b.Lamport
		}
		if a.CUID != b.CUID {
			return a.CUID < b.CUID
		}
		return a.Seq < b.Seq
	})
	var sb strings.Builder
	switch typ {
	case "counter":
		var sum int32
		for _, mop := range sorted {
			if op, ok := operations.ModelToOperation(mop).(*operations.IncreaseOperation); ok {
				sum += op.GetBody()
			}
		}
		fmt.Fprintf(&sb, "get=%d json=%s", sum, jsonStr(struct{ Counter int32 }{sum}))
	case "map":
		type win struct {
			ts  *model.Timestamp
			val interface{}
		}
		best := map[string]*win{}
		for _, mop := range sorted {
			ts := mop.ID.GetTimestamp()
			var key string
			var val interface{}
			switch op := operations.ModelToOperation(mop).(type) {
			case *operations.PutOperation:
				key, val = op.GetBody().Key, op.GetBody().Value
			case *operations.RemoveOperation:
				key, val = op.GetBody().Key, nil
			default:
				continue
			}
			if b, ok := best[key]; !ok || tsLess(b.ts, ts) {
				best[key] = &win{ts: ts, val: val}
			}
		}
		m := map[string]interface{}{}
		for k, b := range best {
			if b.val != nil {
				m[k] = b.val
			}
		}
		fmt.Fprintf(&sb, "size=%d json=%s", len(m), jsonStr(m))
		for _, k := range []string{"a", "b", "c"} {
			fmt.Fprintf(&sb, " get(%s)=%s", k, jsonStr(m[k]))
		}
	case "list":
		seq := newRefSeq()
		for _, mop := range sorted {
			if op, ok := operations.ModelToOperation(mop).(*operations.InsertOperation); ok {
				var ids []*model.Timestamp
				for i := range op.GetBody().V {
					ids = append(ids, withDelim(mop.ID, uint32(i)))
				}
				seq.insert(op.GetBody().T, ids, op.GetBody().V)
			}
		}
		if err := seq.link(); err != nil {
			return "", err
		}
		for _, mop := range sorted {
			switch op := operations.ModelToOperation(mop).(type) {
			case *operations.UpdateOperation:
				for i, t := range op.GetBody().T {
					e, ok := seq.elems[tsKey(t)]
					if !ok {
						return "", fmt.Errorf("update targets unknown element %s", tsKey(t))
					}
					ts := mop.ID.GetTimestamp()
					if tsLess(e.valTime, ts) {
						e.valTime, e.val = ts, op.GetBody().V[i]
					}
				}
			case *operations.DeleteOperation:
				for _, t := range op.GetBody().T {
					e, ok := seq.elems[tsKey(t)]
					if !ok {
						return "", fmt.Errorf("delete targets unknown element %s", tsKey(t))
					}
					e.deleted = true
				}
			}
		}
		vals := []interface{}{}
		for _, e := range seq.live() {
			vals = append(vals, e.val)
		}
		n := len(vals)
		fmt.Fprintf(&sb, "size=%d json=%s", n, jsonStr(struct{ List []interface{} }{vals}))
		for i := 0; i < n; i++ {
			fmt.Fprintf(&sb, " get(%d)=%s/false", i, jsonStr(vals[i]))
		}
		if n > 0 {
			fmt.Fprintf(&sb, " many=%s/false", jsonStr(vals))
		}
	default:
		d := newRefDoc()
		// pass 1: create every top-level container value (identities), in any order
		type pending struct {
			mop *model.Operation
			op  interface{}
		}
		var ps []pending
		for _, mop := range sorted {
			if mop.OpType%10 == 0 || mop.OpType == model.TypeOfOperation_TRANSACTION {
				continue
			}
			ps = append(ps, pending{mop, operations.ModelToOperation(mop)})
		}
		// Containers addressed by an operation must exist in the set: build values first.
		type built struct {
			conts []*refCont
			prims []interface{}
			ids   []*model.Timestamp
		}
		vals := map[*model.Operation]*built{}
		for _, p := range ps {
			var vs []interface{}
			switch op := p.op.(type) {
			case *operations.DocPutInObjOperation:
				vs = []interface{}{op.GetBody().V}
			case *operations.DocInsertToArrayOperation:
				vs = op.GetBody().V
			case *operations.DocUpdateInArrayOperation:
				vs = op.GetBody().V
			}
			b := &built{}
			delim := uint32(0)
			for _, v := range vs {
				id := withDelim(p.mop.ID, delim)
				c, pr := d.mk(v, id)
				b.conts = append(b.conts, c)
				b.prims = append(b.prims, pr)
				b.ids = append(b.ids, id)
				delim += idCount(v)
			}
			vals[p.mop] = b
		}
		// pass 2: object keys by LWW; array inserts
		for _, p := range ps {
			ts := p.mop.ID.GetTimestamp()
			switch op := p.op.(type) {
			case *operations.DocPutInObjOperation:
				c, ok := d.conts[tsKey(op.GetBody().P)]
				if !ok || c.kind != 'o' {
					return "", fmt.Errorf("put addresses unknown object %s", tsKey(op.GetBody().P))
				}
				if s, ok := c.keys[op.GetBody().K]; !ok || tsLess(s.time, ts) {
					b := vals[p.mop]
					c.keys[op.GetBody().K] = &refSlot{time: ts, val: b.conts[0], prim: b.prims[0]}
				}
			case *operations.DocRemoveInObjOperation:
				c, ok := d.conts[tsKey(op.GetBody().P)]
				if !ok || c.kind != 'o' {
					return "", fmt.Errorf("remove addresses unknown object %s", tsKey(op.GetBody().P))
				}
				if s, ok := c.keys[op.GetBody().K]; !ok || tsLess(s.time, ts) {
					c.keys[op.GetBody().K] = &refSlot{time: ts, gone: true}
				}
			case *operations.DocInsertToArrayOperation:
				c, ok := d.conts[tsKey(op.GetBody().P)]
				if !ok || c.kind != 'a' {
					return "", fmt.Errorf("insert addresses unknown array %s", tsKey(op.GetBody().P))
				}
				b := vals[p.mop]
				c.seq.insert(op.GetBody().T, b.ids, b.prims)
				for i, id := range b.ids {
					c.seq.elems[tsKey(id)].cont = b.conts[i]
				}
			}
		}
		// pass 3: array updates (LWW per slot on the creation time of the value) and deletes
		for _, p := range ps {
			switch op := p.op.(type) {
			case *operations.DocUpdateInArrayOperation:
				c, ok := d.conts[tsKey(op.GetBody().P)]
				if !ok || c.kind != 'a' {
					return "", fmt.Errorf("update addresses unknown array %s", tsKey(op.GetBody().P))
				}
				b := vals[p.mop]
				for i, t := range op.GetBody().T {
					e, ok := c.seq.elems[tsKey(t)]
					if !ok {
						return "", fmt.Errorf("update targets unknown slot %s", tsKey(t))
					}
					if tsLess(e.valTime, b.ids[i]) {
						e.valTime, e.val, e.cont = b.ids[i], b.prims[i], b.conts[i]
					}
				}
			case *operations.DocDeleteInArrayOperation:
				c, ok := d.conts[tsKey(op.GetBody().P)]
				if !ok || c.kind != 'a' {
					return "", fmt.Errorf("delete addresses unknown array %s", tsKey(op.GetBody().P))
				}
				for _, t := range op.GetBody().T {
					e, ok := c.seq.elems[tsKey(t)]
					if !ok {
						return "", fmt.Errorf("delete targets unknown slot %s", tsKey(t))
					}
					e.deleted = true
				}
			}
		}
		v := d.root.value()
		fmt.Fprintf(&sb, "json=%s reads=", jsonStr(v))
		valueReads(&sb, v)
	}
	return sb.String(), nil
}
