package w

import (
	"encoding/json"
	"fmt"
	"sort"
	"strings"
	"sync"

	"github.com/orda-io/orda/client/pkg/model"
	"github.com/orda-io/orda/client/pkg/orda"
	"github.com/orda-io/orda/client/pkg/verifrt"
	"github.com/orda-io/orda/client/pkg/verifrt/vsync"

	"verif/h/pt"
	"verif/h/sysx"
)

// C20, positional calls: several goroutines delete and insert by position on ONE list whose length the
// others change meanwhile (and a remote delete arrives). Every call must behave as if made alone at
// some moment: it succeeds or is refused with an error - never a panic, never an element deleted twice.

// posTarget is what the goroutines call: the list itself, or the array "arr" of a document.
type posTarget interface {
	Delete(pos int) (string, error)
	Insert(pos int, tag string) error
	Size() int
	DeleteMany(pos, n int) ([]string, error)
	UpdateMany(pos int, tags ...string) ([]string, error) // returns the replaced values
}

type listTarget struct{ l orda.ListInTx }

func (t listTarget) Delete(pos int) (string, error) {
	v, err := t.l.Delete(pos)
	if err != nil {
		return "", err
	}
	return fmt.Sprint(v), nil
}
func (t listTarget) Insert(pos int, tag string) error { _, err := t.l.Insert(pos, tag); return err }
func (t listTarget) Size() int                        { return t.l.Size() }
func (t listTarget) DeleteMany(pos, n int) ([]string, error) {
	vs, err := t.l.DeleteMany(pos, n)
	if err != nil {
		return nil, err
	}
	return strs(vs), nil
}
func (t listTarget) UpdateMany(pos int, tags ...string) ([]string, error) {
	vals := make([]interface{}, len(tags))
	for i, tg := range tags {
		vals[i] = tg
	}
	vs, err := t.l.Update(pos, vals...)
	if err != nil {
		return nil, err
	}
	return strs(vs), nil
}

func strs(vs []interface{}) []string {
	out := make([]string, 0, len(vs))
	for _, v := range vs {
		out = append(out, fmt.Sprint(v))
	}
	return out
}

func (t arrTarget) DeleteMany(pos, n int) ([]string, error) {
	a, err := t.arr()
	if err != nil {
		return nil, err
	}
	ds, err2 := a.DeleteManyInArray(pos, n)
	if err2 != nil {
		return nil, err2
	}
	var out []string
	for _, d := range ds {
		out = append(out, fmt.Sprint(d.GetValue()))
	}
	return out, nil
}
func (t arrTarget) UpdateMany(pos int, tags ...string) ([]string, error) {
	a, err := t.arr()
	if err != nil {
		return nil, err
	}
	vals := make([]interface{}, len(tags))
	for i, tg := range tags {
		vals[i] = tg
	}
	ds, err2 := a.UpdateManyInArray(pos, vals...)
	if err2 != nil {
		return nil, err2
	}
	var out []string
	for _, d := range ds {
		out = append(out, fmt.Sprint(d.GetValue()))
	}
	return out, nil
}

type arrTarget struct{ d orda.DocumentInTx }

func (t arrTarget) arr() (orda.Document, error) {
	a, err := t.d.GetFromObject("arr")
	if err != nil {
		return nil, err
	}
	if a == nil {
		return nil, fmt.Errorf("no array")
	}
	return a, nil
}
func (t arrTarget) Delete(pos int) (string, error) {
	a, err := t.arr()
	if err != nil {
		return "", err
	}
	v, err2 := a.DeleteInArray(pos)
	if err2 != nil {
		return "", err2
	}
	if v == nil {
		return "", fmt.Errorf("nothing deleted")
	}
	return fmt.Sprint(v.GetValue()), nil
}
func (t arrTarget) Insert(pos int, tag string) error {
	a, err := t.arr()
	if err != nil {
		return err
	}
	if _, err2 := a.InsertToArray(pos, tag); err2 != nil {
		return err2
	}
	return nil
}
func (t arrTarget) Size() int {
	a, err := t.arr()
	if err != nil {
		return -1
	}
	v, _ := a.GetValue().([]interface{})
	return len(v)
}

func init() {
	schedScenarios["c20del"] = func(args json.RawMessage) schedScenario {
		var a c20Args
		json.Unmarshal(args, &a)
		return schedScenario{name: "c20del", build: func(x *schedExec) ([]activity, func() *pt.Violation, func() *pt.Violation, func()) {
			isDoc := a.Type == "docarr"
			wt := "list"
			if isDoc {
				wt = "doc"
			}
			w := NewWorld(WParams{Type: wt, N: 2})
			r := w.reps[0]
			other := w.reps[1]
			initial := []string{"i0", "i1", "i2"}
			var top, otherTop posTarget
			if isDoc {
				r.doc.PutToObject("arr", []interface{}{"i0", "i1", "i2"})
				top, otherTop = arrTarget{r.doc}, arrTarget{other.doc}
			} else {
				r.li.InsertMany(0, "i0", "i1", "i2")
				top, otherTop = listTarget{r.li}, listTarget{other.li}
			}
			w.Sync(0)
			w.Sync(1)
			sched := sysx.NewSched()
			x.sched = sched
			vsync.Hook = func(p string) { sched.Gate("sync." + p) }
			verifrt.GoHook = func(site string) { sched.Gate("go:" + site) }
			if a.Stmt {
				verifrt.PointHook = func(site string) {
					if strings.HasPrefix(site, "transaction.go:") { // wired.go points belong to the c20sync scenario
						sched.Gate("pt:" + site)
					}
				}
			}
			var remotePack *model.PushPullPack
			if a.Remote {
				otherTop.Delete(0) // i0
				ops := other.dt.CreatePushPullPack().Operations
				own := r.dt.CreatePushPullPack()
				remotePack = &model.PushPullPack{Key: e1Key, DUID: r.dt.GetDUID(), Type: w.typ, Operations: ops,
					CheckPoint: &model.CheckPoint{Sseq: own.CheckPoint.Sseq + uint64(len(ops)), Cseq: own.CheckPoint.Cseq - uint64(len(own.Operations))}}
			}
			var mu sync.Mutex
			var panics, deleted, inserted, txReads []string
			okOps := 0
			guard := func(name string, f func()) func() {
				return func() {
					defer func() {
						if p := recover(); p != nil {
							mu.Lock()
							panics = append(panics, fmt.Sprintf("%s: %v", name, p))
							mu.Unlock()
						}
					}()
					f()
				}
			}
			del := func(l posTarget, pos int) bool {
				v, err := l.Delete(pos)
				if err != nil {
					return false
				}
				mu.Lock()
				deleted = append(deleted, v)
				okOps++
				mu.Unlock()
				return true
			}
			ins := func(l posTarget, pos int, tag string) bool {
				if err := l.Insert(pos, tag); err != nil {
					return false
				}
				mu.Lock()
				inserted = append(inserted, tag)
				okOps++
				mu.Unlock()
				return true
			}
			delMany := func(l posTarget, pos, n int) bool {
				vs, err := l.DeleteMany(pos, n)
				if err != nil {
					return false
				}
				mu.Lock()
				deleted = append(deleted, vs...)
				okOps++
				mu.Unlock()
				return true
			}
			updMany := func(l posTarget, pos int, tags ...string) bool {
				olds, err := l.UpdateMany(pos, tags...)
				if err != nil {
					return false
				}
				mu.Lock()
				deleted = append(deleted, olds...) // the replaced values are gone, the new ones are there
				inserted = append(inserted, tags...)
				okOps++
				mu.Unlock()
				return true
			}
			var acts []activity
			if a.Many {
				acts = append(acts, activity{name: "t0-call", f: guard("t0", func() { delMany(top, 1, 2) })})
			} else {
				acts = append(acts, activity{name: "t0-call", f: guard("t0", func() { del(top, 2) })})
			}
			acts = append(acts, activity{name: "t1-tx", f: guard("t1", func() {
				body := func(l posTarget) error {
					n0 := l.Size()
					d := del(l, 0)
					n1 := l.Size()
					i := ins(l, 0, "t1a")
					n2 := l.Size()
					mu.Lock()
					txReads = append(txReads, fmt.Sprintf("%v:%d,%v:%d", d, n1-n0, i, n2-n1))
					mu.Unlock()
					return nil
				}
				var err error
				if isDoc {
					err = r.doc.Transaction("tx", func(d orda.DocumentInTx) error { return body(arrTarget{d}) })
				} else {
					err = r.li.Transaction("tx", func(l orda.ListInTx) error { return body(listTarget{l}) })
				}
				if err == nil {
					mu.Lock()
					okOps++ // the transaction header
					mu.Unlock()
				}
			})})
			if a.Threads >= 3 {
				acts = append(acts, activity{name: "t2-calls", f: guard("t2", func() {
					if a.Many {
						updMany(top, 1, "t2u1", "t2u2")
					} else {
						del(top, 1)
					}
					ins(top, 3, "t2b")
				})})
			}
			if a.Remote {
				acts = append(acts, activity{name: "t3-remote", f: guard("t3", func() { r.dt.ApplyPushPullPack(remotePack) })})
			}
			if a.Packer {
				acts = append(acts, activity{name: "t4-pack", f: guard("t4", func() { r.dt.CreatePushPullPack() })})
			}
			base := len(r.dt.CreatePushPullPack().Operations)
			atEnd := func() *pt.Violation {
				mu.Lock()
				defer mu.Unlock()
				if len(panics) > 0 {
					return viol("C20:panic:"+firstLine(panics[0][strings.Index(panics[0], ":")+1:]), "a goroutine panicked: %v; schedule %v", panics, x.trace)
				}
				pend := r.dt.CreatePushPullPack().Operations[base:]
				var lastSeq uint64
				for i, op := range pend {
					if i > 0 && op.ID.Seq != lastSeq+1 {
						return viol("C20:queue-not-in-sequence-order", "pending operation %d has seq %d after %d; schedule %v", i, op.ID.Seq, lastSeq, x.trace)
					}
					lastSeq = op.ID.Seq
				}
				if len(pend) != okOps {
					return viol("C20:queued-operation-count", "%d operations queued, the successful calls issued %d; schedule %v", len(pend), okOps, x.trace)
				}
				for _, rd := range txReads {
					if rd != "true:-1,true:1" && rd != "false:0,true:1" {
						return viol("C20:transaction-saw-foreign-effect", "sizes read inside the transaction body: %s; schedule %v", rd, x.trace)
					}
				}
				seenDel := map[string]bool{}
				for _, d := range deleted {
					if seenDel[d] {
						return viol("C20:element-deleted-twice", "two successful Delete calls returned the element %s (%v); schedule %v", d, deleted, x.trace)
					}
					seenDel[d] = true
				}
				if a.Remote {
					seenDel["i0"] = true
				}
				var want []string
				for _, v := range append(append([]string{}, initial...), inserted...) {
					if !seenDel[v] {
						want = append(want, v)
					}
				}
				var l struct{ List []string }
				if isDoc {
					b, _ := json.Marshal(r.doc.GetValue())
					var dv struct{ Arr []string }
					json.Unmarshal(b, &dv)
					l.List = dv.Arr
				} else {
					b, _ := json.Marshal(r.li.ToJSON())
					json.Unmarshal(b, &l)
				}
				got := append([]string{}, l.List...)
				sort.Strings(got)
				sort.Strings(want)
				sd := append([]string{}, deleted...)
				sort.Strings(sd)
				x.outcome = fmt.Sprintf("ops=%d deleted=%v final=%v tx=%v", okOps, sd, l.List, txReads)
				if strings.Join(got, ",") != strings.Join(want, ",") {
					return viol("C20:lost-update", "list holds %v; initial content plus successful inserts minus deleted elements is %v (deleted %v); schedule %v", got, want, deleted, x.trace)
				}
				return nil
			}
			return acts, nil, atEnd, func() { vsync.Hook = nil; verifrt.GoHook = nil; verifrt.PointHook = nil }
		}}
	}
}
