package w

import (
	"bufio"
	"bytes"
	"encoding/json"
	"fmt"
	"os"
	"os/exec"
	"path/filepath"
	"testing"

	"verif/h/pt"
)

// TestWorker is the worker entry point: VERIF_JOB names a job file, results go to VERIF_OUT as
// JSON lines (journal line before each item, so that a dead worker identifies its item).
func TestWorker(t *testing.T) {
	jf := os.Getenv("VERIF_JOB")
	if jf == "" {
		t.Skip("no VERIF_JOB")
	}
	curT = t
	if dl := os.Getenv("VERIF_DIVERGE_LOG"); dl != "" {
		divergeLog = func(m string) {
			if f, err := os.OpenFile(dl, os.O_APPEND|os.O_CREATE|os.O_WRONLY, 0o644); err == nil {
				fmt.Fprintln(f, m)
				f.Close()
			}
		}
	}
	b, err := os.ReadFile(jf)
	if err != nil {
		t.Fatal(err)
	}
	var job pt.Job
	if err := json.Unmarshal(b, &job); err != nil {
		t.Fatal(err)
	}
	of, err := os.Create(os.Getenv("VERIF_OUT"))
	if err != nil {
		t.Fatal(err)
	}
	defer of.Close()
	bw := bufio.NewWriterSize(of, 1<<20)
	emit := func(l pt.Line, flush bool) {
		jb, _ := json.Marshal(l)
		bw.Write(jb)
		bw.WriteByte('\n')
		if flush {
			bw.Flush()
		}
	}
	defer bw.Flush()
	var curItem, curSucc int = -1, -1
	var curAct *pt.Action
	exitWith = func(v *pt.Violation) {
		if curCase >= 0 { // case-enumerating shard job
			cc := curCase
			emit(pt.Line{Start: &cc, I: cc, Viol: v}, true)
			of.Close()
			os.Exit(7)
		}
		ci, ck := curItem, curSucc
		l := pt.Line{Start: &ci, I: ci, Viol: v, Act: curAct}
		if ck >= 0 {
			l.A = &ck
		}
		emit(l, true)
		of.Close()
		os.Exit(7)
	}
	isolatedExec = func(check string, params json.RawMessage, h []pt.Action, a pt.Action) (*pt.Succ, error) {
		dir, err := os.MkdirTemp(filepath.Dir(os.Getenv("VERIF_OUT")), "iso")
		if err != nil {
			return nil, err
		}
		defer os.RemoveAll(dir)
		eb, _ := json.Marshal(map[string]interface{}{"act": a})
		jb, _ := json.Marshal(pt.Job{Check: check, Kind: "exec-one", Params: params, Items: [][]pt.Action{h}, Extra: eb})
		if err := os.WriteFile(filepath.Join(dir, "job.json"), jb, 0o644); err != nil {
			return nil, err
		}
		cmd := exec.Command(os.Args[0], "-test.run", "^TestWorker$", "-test.timeout", "10m")
		cmd.Env = append(os.Environ(), "VERIF_JOB="+filepath.Join(dir, "job.json"), "VERIF_OUT="+filepath.Join(dir, "out.jsonl"))
		runErr := cmd.Run()
		ob, _ := os.ReadFile(filepath.Join(dir, "out.jsonl"))
		var got *pt.Succ
		for _, ln := range bytes.Split(ob, []byte("\n")) {
			var l pt.Line
			if len(ln) == 0 || json.Unmarshal(ln, &l) != nil {
				continue
			}
			if l.Viol != nil { // the process had to exit with a violation (hang)
				got = &pt.Succ{A: a, Viol: l.Viol, Terminal: true, Key: "viol:" + l.Viol.Sig, Evals: 1}
			}
			if len(l.Succs) == 1 {
				got = &l.Succs[0]
			}
		}
		if got == nil {
			return nil, fmt.Errorf("no result from the process (%v)", runErr)
		}
		return got, nil
	}
	switch job.Kind {
	case "exec-one":
		isolatedExec = nil
		f, ok := registry[job.Check]
		if !ok || len(job.Items) != 1 {
			emit(pt.Line{Err: "unknown check " + job.Check}, true)
			return
		}
		var ex struct {
			Act pt.Action `json:"act"`
		}
		json.Unmarshal(job.Extra, &ex)
		zero := 0
		curItem = 0
		emit(pt.Line{Start: &zero, I: 0}, true)
		s := execOne(job.Check, f, job.Params, job.Items[0], ex.Act)
		emit(pt.Line{I: 0, Succs: []pt.Succ{s}, Done: true}, true)
	case "expand":
		f, ok := registry[job.Check]
		if !ok {
			emit(pt.Line{Err: "unknown check " + job.Check}, true)
			return
		}
		var ex struct {
			Keys []string         `json:"keys"`
			Skip map[string][]int `json:"skip"` // item index -> successor indices that killed a worker
		}
		if len(job.Extra) > 0 {
			json.Unmarshal(job.Extra, &ex)
		}
		keys := ex.Keys
		for i, h := range job.Items {
			ii := i
			curItem, curSucc, curAct = i, -1, nil
			emit(pt.Line{Start: &ii, I: i}, true)
			want := ""
			if i < len(keys) {
				want = keys[i]
			}
			skip := map[int]bool{}
			for _, k := range ex.Skip[fmt.Sprint(i)] {
				skip[k] = true
			}
			var journal func(k int, a pt.Action)
			if bubbleChecks[job.Check] {
				journal = func(k int, a pt.Action) {
					kk := k
					aa := a
					curSucc, curAct = k, &aa
					emit(pt.Line{Start: &ii, I: i, A: &kk, Act: &aa}, true)
				}
			}
			succs, err := expandItem(job.Check, f, job.Params, h, want, journal, skip)
			if err != nil {
				emit(pt.Line{I: i, Err: err.Error()}, true)
				continue
			}
			emit(pt.Line{I: i, Succs: succs, Done: true}, false)
		}
	case "replay":
		f, ok := registry[job.Check]
		if !ok {
			emit(pt.Line{Err: "unknown check " + job.Check}, true)
			return
		}
		for i, h := range job.Items {
			var info ReplayInfo
			inEnv(job.Check, func() { info = replayVerbose(f, job.Params, h) })
			jb, _ := json.Marshal(info)
			emit(pt.Line{I: i, Info: jb, Done: true}, true)
		}
	default:
		if fn, ok := jobKinds[job.Kind]; ok {
			fn(&job, emit)
		} else {
			emit(pt.Line{Err: "unknown job kind " + job.Kind}, true)
		}
	}
}

// curCase is the case index in flight of a case-enumerating shard job (-1 otherwise).
var curCase = -1

// jobKinds holds the non-BFS job kinds (schedule search shards, input enumeration shards...).
var jobKinds = map[string]func(job *pt.Job, emit func(pt.Line, bool)){}

// ReplayInfo is the result of replaying one history without the explorer.
type ReplayInfo struct {
	Steps []string      `json:"steps"`
	Key   string        `json:"key"`
	Viol  *pt.Violation `json:"viol,omitempty"`
}

func replayVerbose(f Factory, params json.RawMessage, h []pt.Action) ReplayInfo {
	m := f(params)
	var info ReplayInfo
	for i, a := range h {
		v := safeApply(m, a)
		info.Steps = append(info.Steps, fmt.Sprintf("%d %s -> %s", i, a, m.Outcome()))
		if v != nil {
			info.Viol = v
			shutdown(m)
			return info
		}
	}
	info.Key, _ = m.Key()
	info.Viol = safeClose(m)
	shutdown(m)
	return info
}
