package w

import (
	"bufio"
	"encoding/json"
	"fmt"
	"os"
	"testing"

	"verif/h/pt"
)

// TestWorker is the worker entry point: VERIF_JOB names a job file, results go to VERIF_OUT as
// JSON lines (journal line before each item, so that a dead worker identifies its item).
func TestWorker(t *testing.T) {
	jf := os.Getenv("VERIF_JOB")
	if jf == "" {
		t.Skip("no VERIF_JOB")
	}
	b, err := os.ReadFile(jf)
	if err != nil {
		t.Fatal(err)
	}
	var job pt.Job
	if err := json.Unmarshal(b, &job); err != nil {
		t.Fatal(err)
	}
	of, err := os.Create(os.Getenv("VERIF_OUT"))
	if err != nil {
		t.Fatal(err)
	}
	defer of.Close()
	bw := bufio.NewWriterSize(of, 1<<20)
	emit := func(l pt.Line, flush bool) {
		jb, _ := json.Marshal(l)
		bw.Write(jb)
		bw.WriteByte('\n')
		if flush {
			bw.Flush()
		}
	}
	defer bw.Flush()
	switch job.Kind {
	case "expand":
		f, ok := registry[job.Check]
		if !ok {
			emit(pt.Line{Err: "unknown check " + job.Check}, true)
			return
		}
		var keys []string
		if len(job.Extra) > 0 {
			json.Unmarshal(job.Extra, &keys)
		}
		for i, h := range job.Items {
			ii := i
			emit(pt.Line{Start: &ii, I: i}, true)
			want := ""
			if i < len(keys) {
				want = keys[i]
			}
			succs, err := expandItem(f, job.Params, h, want)
			if err != nil {
				emit(pt.Line{I: i, Err: err.Error()}, true)
				continue
			}
			emit(pt.Line{I: i, Succs: succs, Done: true}, false)
		}
	case "replay":
		f, ok := registry[job.Check]
		if !ok {
			emit(pt.Line{Err: "unknown check " + job.Check}, true)
			return
		}
		for i, h := range job.Items {
			info := replayVerbose(f, job.Params, h)
			jb, _ := json.Marshal(info)
			emit(pt.Line{I: i, Info: jb, Done: true}, true)
		}
	default:
		if fn, ok := jobKinds[job.Kind]; ok {
			fn(&job, emit)
		} else {
			emit(pt.Line{Err: "unknown job kind " + job.Kind}, true)
		}
	}
}

// jobKinds holds the non-BFS job kinds (schedule search shards, input enumeration shards...).
var jobKinds = map[string]func(job *pt.Job, emit func(pt.Line, bool)){}

// ReplayInfo is the result of replaying one history without the explorer.
type ReplayInfo struct {
	Steps []string      `json:"steps"`
	Key   string        `json:"key"`
	Viol  *pt.Violation `json:"viol,omitempty"`
}

func replayVerbose(f Factory, params json.RawMessage, h []pt.Action) ReplayInfo {
	m := f(params)
	var info ReplayInfo
	for i, a := range h {
		v := safeApply(m, a)
		info.Steps = append(info.Steps, fmt.Sprintf("%d %s -> %s", i, a, m.Outcome()))
		if v != nil {
			info.Viol = v
			return info
		}
	}
	info.Key, _ = m.Key()
	info.Viol = safeClose(m)
	return info
}
