package w

import (
	"crypto/sha256"
	"encoding/hex"
	"encoding/json"
	"fmt"
	"math"
	"sort"
	"strconv"
	"strings"
	"time"

	"github.com/orda-io/orda/client/pkg/iface"
	"github.com/orda-io/orda/client/pkg/model"
	"github.com/orda-io/orda/client/pkg/orda"
	"github.com/orda-io/orda/client/pkg/verifrt"
	"google.golang.org/protobuf/proto"

	"verif/h/pt"
)

// E1: N real orda replicas (LOCAL_ONLY clients) of one datatype; the harness plays the server
// log: a total order of operations, a read cursor per replica (DESIGN.md §3.5).

// WParams configures an E1 world.
type WParams struct {
	Type   string  `json:"type"`   // counter | map | list | doc
	N      int     `json:"n"`      // replicas
	Alpha  string  `json:"alpha"`  // alphabet name, interpreted by the check
	Orders []int32 `json:"orders"` // per replica map-key order mode (verifrt.Sorted/Reversed)
	Prefix string  `json:"prefix"` // scripted start state ("" = initial)
	Depth  int     `json:"depth"`
}

// Replica is one real datatype instance plus the harness-side bookkeeping of the server protocol.
type Replica struct {
	idx    int
	cli    orda.Client
	dt     iface.Datatype
	cnt    orda.Counter
	mp     orda.Map
	li     orda.List
	doc    orda.Document
	cuid   string
	cursor int // next log index to read
	pushed int // number of own operations in the log
	nloc   int // tag counter
	mode   int32
	gotRem bool // has applied at least one remote operation of another replica (beyond the creation snapshot)
	hasLoc bool // has issued at least one local operation
	stale  map[string]orda.Document
	shared map[string]interface{} // a value object the application keeps, changes and hands over again
	txh    orda.Document          // a handle the application took inside the body of its last transaction and kept
	recv   []string               // ids of remote operations applied, in order
}

// StepOut is what one call returned.
type StepOut struct {
	Ret   string `json:"ret"`
	Err   string `json:"err,omitempty"`
	Panic string `json:"panic,omitempty"`
	Inval bool   `json:"-"` // the harness could not even address the call (e.g. path not resolvable)
	Seen  string `json:"-"` // inside a transaction body: the whole value as the body reads it after this call
	Leak  string `json:"-"` // a value handed out by a read was changed by the reader and the replica's state changed with it
}

// World is the explicit state of an E1 execution.
type World struct {
	P    WParams
	typ  model.TypeOfDatatype
	reps []*Replica
	log  []*model.Operation
	last StepOut
	errs []string // delivery errors seen
}

func typeOf(s string) model.TypeOfDatatype {
	switch s {
	case "counter":
		return model.TypeOfDatatype_COUNTER
	case "map":
		return model.TypeOfDatatype_MAP
	case "list":
		return model.TypeOfDatatype_LIST
	}
	return model.TypeOfDatatype_DOCUMENT
}

const e1Key = "k1"

func newReplica(idx int, typ model.TypeOfDatatype, create bool, mode int32) *Replica {
	r := &Replica{idx: idx, mode: mode, stale: map[string]orda.Document{}}
	verifrt.SetMode(mode)
	r.cli = orda.NewClient(orda.NewLocalClientConfig("col"), fmt.Sprintf("r%d", idx))
	var d orda.Datatype
	switch typ {
	case model.TypeOfDatatype_COUNTER:
		if create {
			r.cnt = r.cli.CreateCounter(e1Key, nil)
		} else {
			r.cnt = r.cli.SubscribeCounter(e1Key, nil)
		}
		d = r.cnt
	case model.TypeOfDatatype_MAP:
		if create {
			r.mp = r.cli.CreateMap(e1Key, nil)
		} else {
			r.mp = r.cli.SubscribeMap(e1Key, nil)
		}
		d = r.mp
	case model.TypeOfDatatype_LIST:
		if create {
			r.li = r.cli.CreateList(e1Key, nil)
		} else {
			r.li = r.cli.SubscribeList(e1Key, nil)
		}
		d = r.li
	default:
		if create {
			r.doc = r.cli.CreateDocument(e1Key, nil)
		} else {
			r.doc = r.cli.SubscribeDocument(e1Key, nil)
		}
		d = r.doc
	}
	r.dt = d.(iface.Datatype)
	r.cuid = r.dt.GetCUID()
	return r
}

// NewWorld builds the initial state: replica 0 creates the datatype, the others subscribe.
func NewWorld(p WParams) *World {
	resetUIDs()
	if strings.Contains(p.Alpha, "mixid") {
		uidScript.mu.Lock()
		uidScript.mixed = true
		uidScript.mu.Unlock()
	}
	w := &World{P: p, typ: typeOf(p.Type)}
	for i := 0; i < p.N; i++ {
		var m int32
		if i < len(p.Orders) {
			m = p.Orders[i]
		}
		w.reps = append(w.reps, newReplica(i, w.typ, i == 0, m))
		if strings.Contains(p.Alpha, "mixid") && i < len(mixedCUIDs) && w.reps[i].cuid != mixedCUIDs[i] {
			panic(fmt.Sprintf("harness: replica %d has client id %q, the id script expected %q", i, w.reps[i].cuid, mixedCUIDs[i]))
		}
	}
	// The creator pushes its creation snapshot and every subscriber completes its subscription
	// (receives the log from position 1) before the explored history starts: the real protocol
	// discards whatever a subscriber does before its first sync (wired.go checkOptionAndError,
	// server subscribeDatatype); late subscription itself is explored by the E2 checks.
	for i := 0; i < p.N; i++ {
		w.Sync(i)
	}
	return w
}

func cloneOp(op *model.Operation) *model.Operation {
	b, err := proto.Marshal(op)
	if err != nil {
		panic(err)
	}
	var c model.Operation
	if err := proto.Unmarshal(b, &c); err != nil {
		panic(err)
	}
	return &c
}

func opIDStr(op *model.Operation) string {
	return fmt.Sprintf("%s:%d", op.ID.CUID, op.ID.Seq)
}

// Sync performs one exchange of replica i with the harness-played server: pull everything after
// the cursor except own operations (log order), then push own pending operations to the log.
func (w *World) Sync(i int) (pulled, pushedN int, err error) {
	r := w.reps[i]
	verifrt.SetMode(r.mode)
	var ops []*model.Operation
	for j := r.cursor; j < len(w.log); j++ {
		if w.log[j].ID.CUID != r.cuid {
			ops = append(ops, cloneOp(w.log[j]))
		}
	}
	r.cursor = len(w.log)
	if len(ops) > 0 {
		exact := make([]*model.Operation, len(ops)) // exact capacity: see DESIGN C09
		copy(exact, ops)
		if _, e := r.dt.ReceiveRemoteModelOperations(exact, false); e != nil {
			err = e
			w.errs = append(w.errs, fmt.Sprintf("r%d deliver: %v", i, e.Error()))
		}
		for _, op := range ops {
			r.recv = append(r.recv, opIDStr(op))
			if op.OpType%10 != 0 && op.OpType != model.TypeOfOperation_TRANSACTION {
				r.gotRem = true
			}
		}
	}
	pack := r.dt.CreatePushPullPack()
	for _, op := range pack.Operations {
		w.log = append(w.log, cloneOp(op))
	}
	r.pushed += len(pack.Operations)
	r.cursor = len(w.log)
	r.dt.SetCheckPoint(uint64(len(w.log)), uint64(r.pushed))
	return len(ops), len(pack.Operations), err
}

// Pending returns the operations of replica i not yet in the log.
func (w *World) Pending(i int) []*model.Operation {
	return w.reps[i].dt.CreatePushPullPack().Operations
}

// ServerCopy rebuilds the datatype the way server/snapshot.Manager.GetLatestDatatype does: a fresh
// local client, CreateDatatype, then the whole log as remote operations.
func (w *World) ServerCopy(upto int) (*Replica, error) {
	r := newReplica(100, w.typ, true, verifrt.Sorted)
	ops := make([]*model.Operation, 0, upto)
	for j := 0; j < upto; j++ {
		ops = append(ops, cloneOp(w.log[j]))
	}
	exact := make([]*model.Operation, len(ops))
	copy(exact, ops)
	var err error
	if len(exact) > 0 {
		if _, e := r.dt.ReceiveRemoteModelOperations(exact, false); e != nil {
			err = e
		}
	}
	return r, err
}

func jsonStr(v interface{}) string {
	b, err := json.Marshal(v)
	if err != nil {
		return "!marshal:" + err.Error()
	}
	return string(b)
}

// canonJSON re-marshals JSON text with sorted object keys.
func canonJSON(s string) string {
	var v interface{}
	if err := json.Unmarshal([]byte(s), &v); err != nil {
		return s
	}
	return jsonStr(v)
}

// View is the readable state of a replica through the public API only.
// typed returns the replica's datatype as the application holds it.
func (r *Replica) typed() orda.Datatype {
	switch {
	case r.cnt != nil:
		return r.cnt
	case r.mp != nil:
		return r.mp
	case r.li != nil:
		return r.li
	}
	return r.doc
}

func (r *Replica) View() string {
	verifrt.SetMode(verifrt.Sorted)
	defer verifrt.SetMode(r.mode)
	return viewOf(r)
}

// asReplica wraps any orda datatype (e.g. one rebuilt by the server) for viewOf.
func asReplica(d interface{}) *Replica {
	r := &Replica{stale: map[string]orda.Document{}}
	switch x := d.(type) {
	case orda.Counter:
		r.cnt = x
	case orda.Map:
		r.mp = x
	case orda.List:
		r.li = x
	case orda.Document:
		r.doc = x
	}
	if dt, ok := d.(iface.Datatype); ok {
		r.dt = dt
		r.cuid = dt.GetCUID()
	}
	return r
}

func viewOf(r *Replica) string {
	var sb strings.Builder
	switch {
	case r.cnt != nil:
		fmt.Fprintf(&sb, "get=%d json=%s", r.cnt.Get(), jsonStr(r.cnt.ToJSON()))
	case r.mp != nil:
		fmt.Fprintf(&sb, "size=%d json=%s", r.mp.Size(), jsonStr(r.mp.ToJSON()))
		for _, k := range []string{"a", "b", "c"} {
			fmt.Fprintf(&sb, " get(%s)=%s", k, jsonStr(r.mp.Get(k)))
		}
	case r.li != nil:
		n := r.li.Size()
		fmt.Fprintf(&sb, "size=%d json=%s", n, jsonStr(r.li.ToJSON()))
		for i := 0; i < n; i++ {
			v, e := r.li.Get(i)
			fmt.Fprintf(&sb, " get(%d)=%s/%v", i, jsonStr(v), e != nil)
		}
		if n > 0 {
			vs, e := r.li.GetMany(0, n)
			fmt.Fprintf(&sb, " many=%s/%v", jsonStr(vs), e != nil)
		}
	case r.doc != nil:
		fmt.Fprintf(&sb, "json=%s", jsonStr(r.doc.GetValue()))
		sb.WriteString(" reads=")
		docReads(&sb, r.doc, 0)
	}
	return sb.String()
}

// docReads walks the document through GetFromObject / GetFromArray and prints every value. The other read paths of the
// API (GetByPath, GetManyFromArray, ToJSONBytes, GetParentDocument, GetRootDocument) must agree with that walk: a
// disagreement is printed into the view, where it differs from the reference and from the other replicas.
func docReads(sb *strings.Builder, d orda.Document, depth int) {
	docReadsAt(sb, d, d, "", true, depth)
}

func docReadsAt(sb *strings.Builder, root, d orda.Document, path string, pathOK bool, depth int) {
	if d == nil || depth > 40 {
		return
	}
	if depth > 0 {
		if r := d.GetRootDocument(); r == nil || !r.Equal(root) {
			sb.WriteString("!inconsistent(GetRootDocument)")
		}
		if pathOK {
			if bp, err := root.GetByPath(path); err != nil || bp == nil || jsonStr(bp.GetValue()) != jsonStr(d.GetValue()) {
				fmt.Fprintf(sb, "!inconsistent(GetByPath %s)", path)
			}
		}
	}
	var viaBytes interface{}
	if json.Unmarshal(d.ToJSONBytes(), &viaBytes) != nil || jsonStr(viaBytes) != jsonStr(d.GetValue()) {
		sb.WriteString("!inconsistent(ToJSONBytes)")
	}
	join := func(seg string) (string, bool) {
		ok := pathOK && seg != "" && !strings.ContainsAny(seg, "/~")
		if path == "" {
			return seg, ok
		}
		return path + "/" + seg, ok
	}
	switch d.GetTypeOfJSON() {
	case orda.TypeJSONObject:
		m, _ := d.GetValue().(map[string]interface{})
		keys := make([]string, 0, len(m))
		for k := range m {
			keys = append(keys, k)
		}
		sort.Strings(keys)
		sb.WriteString("{")
		for _, k := range keys {
			c, err := d.GetFromObject(k)
			fmt.Fprintf(sb, "%q:", k)
			if err != nil || c == nil {
				fmt.Fprintf(sb, "!nil(%v)", err != nil)
			} else {
				if p := c.GetParentDocument(); p == nil || !p.Equal(d) {
					sb.WriteString("!inconsistent(GetParentDocument)")
				}
				cp, ok := join(k)
				docReadsAt(sb, root, c, cp, ok, depth+1)
			}
			sb.WriteString(",")
		}
		sb.WriteString("}")
	case orda.TypeJSONArray:
		a, _ := d.GetValue().([]interface{})
		if len(a) > 0 {
			many, err := d.GetManyFromArray(0, len(a))
			if err != nil || len(many) != len(a) {
				sb.WriteString("!inconsistent(GetManyFromArray)")
			} else {
				for i, e := range many {
					if e == nil || jsonStr(e.GetValue()) != jsonStr(a[i]) {
						fmt.Fprintf(sb, "!inconsistent(GetManyFromArray %d)", i)
					}
				}
			}
		}
		sb.WriteString("[")
		for i := range a {
			c, err := d.GetFromArray(i)
			if err != nil || c == nil {
				fmt.Fprintf(sb, "!nil(%v)", err != nil)
			} else {
				cp, ok := join(strconv.Itoa(i))
				docReadsAt(sb, root, c, cp, ok, depth+1)
			}
			sb.WriteString(",")
		}
		sb.WriteString("]")
	default:
		sb.WriteString(jsonStr(d.GetValue()))
	}
}

// Export is the canonical exported state (meta + snapshot) of a replica.
func (r *Replica) Export() (string, string) {
	verifrt.SetMode(verifrt.Sorted)
	defer verifrt.SetMode(r.mode)
	meta, snap, err := r.dt.GetMetaAndSnapshot()
	if err != nil {
		return "!err:" + err.Error(), ""
	}
	return string(meta), string(snap)
}

func opsDigest(ops []*model.Operation) string {
	var sb strings.Builder
	for _, op := range ops {
		fmt.Fprintf(&sb, "%d|%d:%d:%s:%d|%s;", op.OpType, op.ID.Era, op.ID.Lamport, op.ID.CUID, op.ID.Seq, string(op.Body))
	}
	return sb.String()
}

// Key is the canonical state key (DESIGN.md §3.5).
func (w *World) Key() (string, bool) {
	h := sha256.New()
	nt := 0
	for i, r := range w.reps {
		meta, snap := r.Export()
		fmt.Fprintf(h, "R%d|%s|%s|%s|%d|%d|%d|%v\n", i, meta, snap, opsDigest(w.Pending(i)), r.cursor, r.pushed, r.nloc, r.txhUsable())
		if r.gotRem && r.hasLoc {
			nt++
		}
	}
	fmt.Fprintf(h, "LOG|%s", opsDigest(w.log))
	return hex.EncodeToString(h.Sum(nil)[:12]), nt >= 1
}

// txhUsable: the kept handle still shows a live object.
func (r *Replica) txhUsable() (ok bool) {
	defer func() {
		if recover() != nil {
			ok = false
		}
	}()
	return r.txh != nil && !r.txh.IsGarbage() && r.txh.GetTypeOfJSON() == orda.TypeJSONObject
}

func (r *Replica) tag() string {
	r.nloc++
	return fmt.Sprintf("r%d_%d", r.idx, r.nloc)
}

// value builds the value for a shape code with fresh unique tags.
type goStruct struct {
	A string   `json:"a"`
	B []string `json:"b"`
}

func (r *Replica) value(shape string) interface{} {
	switch shape {
	case "", "p":
		return r.tag()
	case "o":
		return map[string]interface{}{"x": r.tag(), "y": r.tag()}
	case "a":
		return []interface{}{r.tag(), r.tag()}
	case "n":
		return map[string]interface{}{"o": map[string]interface{}{"p": r.tag(), "q": r.tag()}}
	case "na":
		return map[string]interface{}{"l": []interface{}{r.tag(), r.tag()}, "m": r.tag()}
	case "e":
		return map[string]interface{}{}
	case "ea":
		return []interface{}{}
	case "em":
		// an empty array followed, in the same operation, by further members (keys are walked in sorted order)
		return map[string]interface{}{"a": []interface{}{}, "b": r.tag(), "c": []interface{}{r.tag()}}
	case "eam":
		return []interface{}{[]interface{}{}, r.tag(), map[string]interface{}{}, r.tag()}
	case "ga": // values of Go types that encoding/json turns into arrays, objects and strings
		return [2]string{r.tag(), r.tag()}
	case "gs":
		return goStruct{A: r.tag(), B: []string{r.tag()}}
	case "gp":
		t := r.tag()
		return &t
	case "gm":
		return map[string][1]string{"x": {r.tag()}}
	case "k":
		// the same value every time, on every replica: a write that does not change what the key or slot shows
		return "same"
	case "sm":
		// the application's own map, handed over again and again and changed in between: what an earlier call was given
		// must not change with it
		if r.shared == nil {
			r.shared = map[string]interface{}{}
		}
		r.shared["x"] = r.tag()
		return r.shared
	case "nan":
		return math.NaN() // not a JSON value
	case "nil":
		return nil
	case "tnil":
		return (*string)(nil)
	case "num":
		r.nloc++
		return float64(r.idx*1000 + r.nloc)
	}
	return r.tag()
}

func (r *Replica) values(shape string, n int) []interface{} {
	if n <= 0 {
		n = 1
	}
	vs := make([]interface{}, 0, n)
	for i := 0; i < n; i++ {
		vs = append(vs, r.value(shape))
	}
	return vs
}

// resolve walks a path ("a/0/x") from the root document; "@path" returns the first handle ever
// resolved for that path on this replica (possibly stale).
func (r *Replica) resolve(root orda.DocumentInTx, path string) (orda.DocumentInTx, bool) {
	inTx := root != orda.DocumentInTx(r.doc)
	if strings.HasPrefix(path, "@") {
		if inTx {
			return nil, false
		}
		d, ok := r.stale[path[1:]]
		return d, ok
	}
	var cur orda.DocumentInTx = root
	if path != "" {
		for _, seg := range strings.Split(path, "/") {
			var nx orda.Document
			var err error
			switch cur.GetTypeOfJSON() {
			case orda.TypeJSONObject:
				nx, err = cur.GetFromObject(seg)
			case orda.TypeJSONArray:
				idx, e := strconv.Atoi(seg)
				if e != nil {
					return nil, false
				}
				nx, err = cur.GetFromArray(idx)
			default:
				return nil, false
			}
			if err != nil || nx == nil {
				return nil, false
			}
			cur = nx
		}
	}
	if _, ok := r.stale[path]; !ok && !inTx {
		if d, isDoc := cur.(orda.Document); isDoc {
			r.stale[path] = d
		}
	}
	return cur, true
}

func docsJSON(ds []orda.Document) string {
	vs := make([]interface{}, 0, len(ds))
	for _, d := range ds {
		if d == nil {
			vs = append(vs, nil)
		} else {
			vs = append(vs, d.GetValue())
		}
	}
	return jsonStr(vs)
}

func docJSON(d orda.Document) string {
	if d == nil {
		return "null"
	}
	return jsonStr(d.GetValue())
}

func errStr(e error) string {
	if e == nil {
		return ""
	}
	// keep only the error class: "[DatatypeIllegalParameters: 105] ..." -> name
	s := e.Error()
	if i := strings.Index(s, ":"); i > 0 && strings.HasPrefix(s, "[") {
		return s[1:i]
	}
	return "error"
}

// call executes one API call of action a on target t (a datatype or its in-transaction view).
type callTarget struct {
	cnt orda.CounterInTx
	mp  orda.MapInTx
	li  orda.ListInTx
	doc orda.DocumentInTx
}

func (r *Replica) target() callTarget {
	return callTarget{cnt: r.cnt, mp: r.mp, li: r.li, doc: r.doc}
}

func isNilIface(e error) bool { return e == nil }

func (w *World) call(r *Replica, t callTarget, a pt.Action) (out StepOut) {
	defer func() {
		if p := recover(); p != nil {
			out.Panic = fmt.Sprint(p)
		}
	}()
	switch a.Op {
	case "getmut":
		// the application reads a value and changes what it was given (adds a member, overwrites an element): that is
		// its own copy, the replica's state stays what the operations made it
		before := jsonStr(r.typed().ToJSON())
		var v interface{}
		if t.mp != nil {
			v = t.mp.Get(a.K)
		} else if t.li != nil {
			v, _ = t.li.Get(a.P)
		}
		switch x := v.(type) {
		case map[string]interface{}:
			x["zz"] = "changed-by-the-reader"
		case []interface{}:
			if len(x) > 0 {
				x[0] = "changed-by-the-reader"
			}
		}
		out.Ret = "-"
		if after := jsonStr(r.typed().ToJSON()); after != before {
			out.Leak = fmt.Sprintf("before the reader changed the value it got: %s, after: %s", before, after)
		}
	case "inc":
		v, e := t.cnt.IncreaseBy(int32(a.P))
		out.Ret = fmt.Sprint(v)
		if e != nil {
			out.Err = errStr(e)
		}
	case "put":
		v, e := t.mp.Put(a.K, r.value(a.V))
		out.Ret = jsonStr(v)
		if e != nil {
			out.Err = errStr(e)
		}
	case "rem":
		v, e := t.mp.Remove(a.K)
		out.Ret = jsonStr(v)
		if e != nil {
			out.Err = errStr(e)
		}
	case "ins":
		v, e := t.li.InsertMany(a.P, r.values(a.V, a.N)...)
		out.Ret = jsonStr(v)
		if e != nil {
			out.Err = errStr(e)
		}
	case "ins1":
		v, e := t.li.Insert(a.P, r.value(a.V))
		out.Ret = jsonStr(v)
		if e != nil {
			out.Err = errStr(e)
		}
	case "del1":
		v, e := t.li.Delete(a.P)
		out.Ret = jsonStr(v)
		if e != nil {
			out.Err = errStr(e)
		}
	case "del":
		v, e := t.li.DeleteMany(a.P, a.N)
		out.Ret = jsonStr(v)
		if e != nil {
			out.Err = errStr(e)
		}
	case "upd":
		v, e := t.li.Update(a.P, r.values(a.V, a.N)...)
		out.Ret = jsonStr(v)
		if e != nil {
			out.Err = errStr(e)
		}
	case "dput", "ddel", "dins", "dupd", "darrdel", "darrdel1":
		d, ok := r.resolve(t.doc, a.T)
		if !ok {
			out.Inval = true
			out.Err = "unresolvable"
			return
		}
		switch a.Op {
		case "dput":
			v, e := d.PutToObject(a.K, r.value(a.V))
			out.Ret = docJSON(v)
			if e != nil {
				out.Err = errStr(e)
			}
		case "ddel":
			v, e := d.DeleteInObject(a.K)
			out.Ret = docJSON(v)
			if e != nil {
				out.Err = errStr(e)
			}
		case "dins":
			_, e := d.InsertToArray(a.P, r.values(a.V, a.N)...)
			out.Ret = "-"
			if e != nil {
				out.Err = errStr(e)
			}
		case "dupd":
			v, e := d.UpdateManyInArray(a.P, r.values(a.V, a.N)...)
			out.Ret = docsJSON(v)
			if e != nil {
				out.Err = errStr(e)
			}
		case "darrdel":
			v, e := d.DeleteManyInArray(a.P, a.N)
			out.Ret = docsJSON(v)
			if e != nil {
				out.Err = errStr(e)
			}
		case "darrdel1":
			v, e := d.DeleteInArray(a.P)
			out.Ret = docJSON(v)
			if e != nil {
				out.Err = errStr(e)
			}
		}
	case "ack":
		// a sync answer that brings nothing new (the acknowledgement of what is already acknowledged, e.g. a repeated
		// response) is applied now - from inside a transaction body this is what a background sync does meanwhile
		own := r.dt.CreatePushPullPack() // its checkpoint counts the operations it carries as acknowledged
		r.dt.ApplyPushPullPack(&model.PushPullPack{Key: e1Key, DUID: r.dt.GetDUID(), Type: w.typ,
			CheckPoint: &model.CheckPoint{Sseq: own.CheckPoint.Sseq, Cseq: own.CheckPoint.Cseq - uint64(len(own.Operations))}})
		out.Ret = "-"
	case "patch":
		ops, e := t.doc.PatchByJSON(a.V)
		out.Ret = fmt.Sprint(len(ops))
		if e != nil {
			out.Err = errStr(e)
		}
	default:
		panic("harness: unknown op " + a.Op)
	}
	return
}

var errTxFail = fmt.Errorf("harness: transaction body fails")

// readInTx reads the whole value through the in-transaction view of the datatype.
func readInTx(t callTarget) (out string) {
	defer func() {
		if p := recover(); p != nil {
			out = fmt.Sprint("panic: ", p)
		}
	}()
	switch {
	case t.cnt != nil:
		return fmt.Sprint(t.cnt.Get())
	case t.mp != nil:
		return fmt.Sprintf("%d %s", t.mp.Size(), jsonStr(t.mp.Get("a")))
	case t.li != nil:
		n := t.li.Size()
		if n == 0 {
			return "0"
		}
		v, _ := t.li.GetMany(0, n)
		return fmt.Sprintf("%d %s", n, jsonStr(v))
	case t.doc != nil:
		return jsonStr(t.doc.GetValue())
	}
	return ""
}

// Local executes a local API call (or a transaction of calls) on replica a.R.
func (w *World) Local(a pt.Action) StepOut {
	r := w.reps[a.R]
	verifrt.SetMode(r.mode)
	r.hasLoc = true
	if a.Op != "tx" {
		return w.call(r, r.target(), a)
	}
	var out StepOut
	var subs []StepOut
	body := func(t callTarget) error {
		for _, s := range a.Sub {
			o := w.call(r, t, s)
			// the body looks at what it has done so far (apply, inspect, decide): reads inside a transaction
			o.Seen = readInTx(t)
			subs = append(subs, o)
			if o.Panic != "" {
				panic("inner: " + o.Panic)
			}
		}
		if t.doc != nil && a.T != "@txh" && !a.Fail && !hasBadPatch(a) { // (a body that fails is absent from the twin history, and so are its handles)
			// the body keeps a handle to a nested object for later (it is bound to this transaction's context)
			if h, err := t.doc.GetFromObject("a"); err == nil && h != nil && h.GetTypeOfJSON() == orda.TypeJSONObject {
				r.txh = h
			}
		}
		if a.Fail {
			return errTxFail
		}
		return nil
	}
	run := func() {
		defer func() {
			if p := recover(); p != nil {
				out.Panic = fmt.Sprint(p)
			}
		}()
		var e error
		switch {
		case r.cnt != nil:
			e = r.cnt.Transaction("tx", func(c orda.CounterInTx) error { return body(callTarget{cnt: c}) })
		case r.mp != nil:
			e = r.mp.Transaction("tx", func(m orda.MapInTx) error { return body(callTarget{mp: m}) })
		case r.li != nil:
			e = r.li.Transaction("tx", func(l orda.ListInTx) error { return body(callTarget{li: l}) })
		case a.T == "@txh":
			// a transaction opened on the handle kept from an earlier transaction's body
			e = r.txh.Transaction("tx", func(d orda.DocumentInTx) error { return body(callTarget{doc: d}) })
		default:
			e = r.doc.Transaction("tx", func(d orda.DocumentInTx) error { return body(callTarget{doc: d}) })
		}
		if e != nil {
			out.Err = "tx:" + e.Error()
			if a.Fail {
				out.Err = "txfail"
			}
		}
	}
	nested := false
	for _, s := range a.Sub {
		if s.Op == "patch" {
			nested = true
		}
	}
	if !nested {
		run()
	} else {
		// a call that opens a transaction inside the running one: if it waits for the mutex its own caller holds it never
		// returns. Nothing else runs in this process, so a call of a few microseconds that has not returned after 30 s
		// is waiting for ever; the goroutine cannot be recovered and the worker ends with the report.
		done := make(chan struct{})
		go func() { defer close(done); run() }()
		select {
		case <-done:
		case <-time.After(30 * time.Second):
			exitWith(viol("C09:transaction-body-never-returns:Document.PatchByJSON", "%s: the transaction has not returned after 30 s: PatchByJSON inside a transaction body waits for the mutex its own transaction holds", a))
		}
	}
	out.Ret = jsonStr(subs)
	return out
}

// Step applies one action of a history.
func (w *World) Step(a pt.Action) StepOut {
	if a.Op == "sync" {
		pl, ps, err := w.Sync(a.R)
		o := StepOut{Ret: fmt.Sprintf("pulled=%d pushed=%d", pl, ps)}
		if err != nil {
			o.Err = "deliver:" + errStr(err)
		}
		w.last = o
		return o
	}
	o := w.Local(a)
	w.last = o
	return o
}

// CloseSyncs runs the fault-free quiescence closure: sync(0..N-1) twice.
func (w *World) CloseSyncs() {
	for k := 0; k < 2; k++ {
		for i := range w.reps {
			w.Sync(i)
		}
	}
}
