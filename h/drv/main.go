// drv is the driver of all checks: it instruments and builds the worker from /repo's current
// working tree, runs the exploration over worker processes, and writes evidence.
package main

import (
	"bufio"
	"bytes"
	"crypto/sha256"
	"encoding/hex"
	"encoding/json"
	"fmt"
	"os"
	"os/exec"
	"path/filepath"
	"regexp"
	"runtime"
	"sort"
	"strconv"
	"strings"
	"sync"
	"time"

	"verif/h/pt"
)

// verifDir is /verif; a background run from a snapshot (vp run) names its own copy in VERIF_DIR.
var verifDir = func() string {
	if d := os.Getenv("VERIF_DIR"); d != "" {
		return d
	}
	return "/verif"
}()

// repoDir is the tree the checks rebuild from: /repo, or - for trying a seeded change next to a running
// check without touching /repo - a scratch worktree named by VERIF_ALT_REPO (then evidence and replay
// files go to VERIF_ALT_OUT and nothing under /verif is written).
var repoDir = "/repo"
var outDir = verifDir

func init() {
	if r := os.Getenv("VERIF_ALT_REPO"); r != "" {
		repoDir = r
		outDir = os.Getenv("VERIF_ALT_OUT")
		if outDir == "" {
			outDir = filepath.Join(os.TempDir(), "verif-alt-out")
		}
		os.MkdirAll(outDir, 0o755)
	}
}

var goEnv = []string{"GOFLAGS=-mod=mod", "GOPROXY=off", "GOSUMDB=off", "GOTOOLCHAIN=local"}

// Run is one exploration inside a check.
type Run struct {
	Name     string
	Check    string      // worker registry name
	Kind     string      // bfs (default) | shards
	Params   interface{} // marshalled into Job.Params
	Depth    int         // bfs depth bound
	Shards   int         // for Kind=shards
	MaxState int         // state cap (0 = none); hitting it makes the run non-exhaustive
	Race     bool        // use the -race worker binary
	Cases    bool        // shard job that reports one line per case and can be resumed behind a fatal case
	// Supplementary marks a sampling pass (free-running -race): its violations count, its executions
	// are not added to the exhaustive totals and it does not affect the exhaustive flag
	Supplementary bool
}

// Plan is what a check runs for one tier.
type Plan struct {
	ID      string
	Level   string // evidence level
	Rule    string
	Assume  []string
	Runs    []Run
	BudgetS int // wall clock budget in seconds (internal deadline: exit 0 with exhaustive:false)
}

type knownFinding struct {
	Property string `json:"property"`
	ID       string `json:"id"`
	Status   string `json:"status"` // known | fixed
	SigRe    string `json:"sig_regex"`
	Fails    string `json:"fails"`
	Commit   string `json:"commit,omitempty"`
	re       *regexp.Regexp
}

type runStats struct {
	Name        string        `json:"name"`
	States      int           `json:"states"`
	Transitions int           `json:"transitions"`
	Nontrivial  int           `json:"distinct_nontrivial"`
	Outcomes    int           `json:"distinct_outcomes"`
	DepthDone   int           `json:"depth_completed"`
	Exhaustive  bool          `json:"exhaustive_within_bound"`
	Cap         string        `json:"cap_hit,omitempty"`
	WallS       float64       `json:"wall_s"`
	Samples     []interface{} `json:"-"`
	Extra       interface{}   `json:"extra,omitempty"`
	Supp        bool          `json:"supplementary_sampling_pass,omitempty"`
}

type ctx struct {
	id       string
	tier     string
	seed     int64
	scratch  string
	worker   string
	workerRc string
	known    []*knownFinding
	start    time.Time
	deadline time.Time
	instrRep json.RawMessage

	mu         sync.Mutex
	violations int
	knownHit   map[string]int
	violLines  []string
	jobSeq     int
	sigSeen    map[string]bool
}

func main() {
	if len(os.Args) < 2 {
		usage()
	}
	switch os.Args[1] {
	case "check":
		if len(os.Args) < 4 {
			usage()
		}
		os.Exit(runCheck(os.Args[2], os.Args[3]))
	case "replay":
		if len(os.Args) < 3 {
			usage()
		}
		os.Exit(runReplay(os.Args[2]))
	case "setup":
		os.Exit(runSetup())
	default:
		usage()
	}
}

func usage() {
	fmt.Fprintln(os.Stderr, "usage: drv check <ID> <quick|thorough> | replay <file> | setup")
	os.Exit(2)
}

func run(dir string, env []string, name string, args ...string) (string, error) {
	cmd := exec.Command(name, args...)
	cmd.Dir = dir
	cmd.Env = append(os.Environ(), env...)
	var buf bytes.Buffer
	cmd.Stdout = &buf
	cmd.Stderr = &buf
	err := cmd.Run()
	return buf.String(), err
}

func newScratch() string {
	base := os.Getenv("VERIF_SCRATCH_BASE")
	if base == "" {
		base = "/var/tmp"
	}
	os.MkdirAll(base, 0o755)
	d, err := os.MkdirTemp(base, "verif-run-")
	if err != nil {
		panic(err)
	}
	return d
}

// buildWorker instruments /repo's working tree and builds the worker test binary.
func buildWorker(scratch string, race bool) (string, json.RawMessage, error) {
	ov := filepath.Join(scratch, "ov")
	if _, err := os.Stat(filepath.Join(ov, "overlay.json")); err != nil {
		instr := filepath.Join(verifDir, "bin", "instr")
		stale := true
		if bi, err := os.Stat(instr); err == nil {
			stale = false
			srcs, _ := filepath.Glob(filepath.Join(verifDir, "tools/instr", "*.go"))
			for _, f := range srcs {
				if si, err := os.Stat(f); err == nil && si.ModTime().After(bi.ModTime()) {
					stale = true
				}
			}
		}
		if stale {
			tmp := fmt.Sprintf("%s.%d", instr, os.Getpid())
			if out, err := run(filepath.Join(verifDir, "tools/instr"), goEnv, "go1.26", "build", "-o", tmp, "."); err != nil {
				return "", nil, fmt.Errorf("build instr: %v\n%s", err, out)
			}
			os.Rename(tmp, instr)
		}
		if out, err := run(verifDir, goEnv, instr, "-repo", repoDir, "-rt", filepath.Join(verifDir, "h/verifrt_src"), "-out", ov); err != nil {
			return "", nil, fmt.Errorf("instr: %v\n%s", err, out)
		}
	}
	rep, _ := os.ReadFile(filepath.Join(ov, "instr_report.json"))
	bin := filepath.Join(scratch, "w.test")
	args := []string{"test", "-c", "-tags", "verif", "-vet=off", "-overlay", filepath.Join(ov, "overlay.json"), "-o", bin}
	if race {
		bin = filepath.Join(scratch, "w.race.test")
		args = []string{"test", "-c", "-race", "-tags", "verif", "-vet=off", "-overlay", filepath.Join(ov, "overlay.json"), "-o", bin}
	}
	if repoDir != "/repo" {
		// the harness module replaces the orda modules by /repo/...: build with a copy of go.mod pointing at the other tree
		gm, err := os.ReadFile(filepath.Join(verifDir, "h", "go.mod"))
		if err != nil {
			return "", rep, err
		}
		alt := filepath.Join(scratch, "alt.mod")
		os.WriteFile(alt, bytes.ReplaceAll(gm, []byte("=> /repo"), []byte("=> "+repoDir)), 0o644)
		gs, _ := os.ReadFile(filepath.Join(verifDir, "h", "go.sum"))
		os.WriteFile(filepath.Join(scratch, "alt.sum"), gs, 0o644)
		args = append(args[:2], append([]string{"-modfile=" + alt}, args[2:]...)...)
	}
	args = append(args, "./w")
	if out, err := run(filepath.Join(verifDir, "h"), goEnv, "go1.26", args...); err != nil {
		return "", rep, fmt.Errorf("build worker: %v\n%s", err, out)
	}
	return bin, rep, nil
}

func runSetup() int {
	scratch := newScratch()
	defer os.RemoveAll(scratch)
	os.MkdirAll(filepath.Join(verifDir, "bin"), 0o755)
	os.MkdirAll(filepath.Join(verifDir, "evidence"), 0o755)
	os.MkdirAll(filepath.Join(verifDir, "replays"), 0o755)
	if _, _, err := buildWorker(scratch, false); err != nil {
		fmt.Fprintln(os.Stderr, err)
		return 1
	}
	if _, _, err := buildWorker(scratch, true); err != nil {
		fmt.Fprintln(os.Stderr, err)
		return 1
	}
	fmt.Println("setup ok")
	return 0
}

func loadKnown() []*knownFinding {
	var ks []*knownFinding
	b, err := os.ReadFile(filepath.Join(verifDir, "known_findings.json"))
	if err != nil {
		return nil
	}
	if err := json.Unmarshal(b, &ks); err != nil {
		fmt.Fprintln(os.Stderr, "known_findings.json:", err)
		os.Exit(3)
	}
	for _, k := range ks {
		k.re = regexp.MustCompile(k.SigRe)
	}
	return ks
}

func runCheck(id, tier string) int {
	planFn, ok := plans[id]
	if !ok {
		fmt.Fprintln(os.Stderr, "unknown check", id)
		return 2
	}
	plan := planFn(tier)
	seed, _ := strconv.ParseInt(os.Getenv("VERIF_SEED"), 10, 64)
	c := &ctx{id: id, tier: tier, seed: seed, start: time.Now(), known: loadKnown(), knownHit: map[string]int{}}
	if plan.BudgetS == 0 {
		plan.BudgetS = 600
	}
	if s := os.Getenv("VERIF_BUDGET_S"); s != "" {
		plan.BudgetS, _ = strconv.Atoi(s)
	}
	if only := os.Getenv("VERIF_ONLY"); only != "" { // debugging aid: run only the runs whose name contains one of these
		var keep []Run
		for _, r := range plan.Runs {
			for _, o := range strings.Split(only, ",") {
				if strings.Contains(r.Name, o) {
					keep = append(keep, r)
					break
				}
			}
		}
		plan.Runs = keep
	}
	c.deadline = c.start.Add(time.Duration(plan.BudgetS) * time.Second)
	c.scratch = newScratch()
	defer os.RemoveAll(c.scratch)
	var err error
	needRace, needPlain := false, false
	for _, r := range plan.Runs {
		if r.Race {
			needRace = true
		} else {
			needPlain = true
		}
	}
	if needPlain {
		if c.worker, c.instrRep, err = buildWorker(c.scratch, false); err != nil {
			fmt.Fprintln(os.Stderr, "BUILD-FAILED:", err)
			return 3
		}
	}
	if needRace {
		if c.workerRc, c.instrRep, err = buildWorker(c.scratch, true); err != nil {
			fmt.Fprintln(os.Stderr, "BUILD-FAILED:", err)
			return 3
		}
	}
	var stats []*runStats
	for _, r := range plan.Runs {
		if time.Now().After(c.deadline) {
			stats = append(stats, &runStats{Name: r.Name, Cap: "time budget reached before this run"})
			continue
		}
		var st *runStats
		switch r.Kind {
		case "", "bfs":
			st, err = c.bfs(r)
		default:
			st, err = c.shards(r)
		}
		if err != nil {
			fmt.Fprintf(os.Stderr, "HARNESS-ERROR in run %s: %v\n", r.Name, err)
			return 3
		}
		st.Supp = r.Supplementary
		fmt.Printf("run %-28s states=%d transitions=%d nontrivial=%d outcomes=%d depth=%d exhaustive=%v %s (%.1fs)\n",
			st.Name, st.States, st.Transitions, st.Nontrivial, st.Outcomes, st.DepthDone, st.Exhaustive, st.Cap, st.WallS)
		if st.Supp {
			if b, err := json.Marshal(st.Extra); err == nil {
				var xs []struct {
					Notes []string `json:"free_running_notes"`
				}
				seen := map[string]bool{}
				if json.Unmarshal(b, &xs) == nil {
					for _, x := range xs {
						for _, n := range x.Notes {
							l := firstLines(n, 1)
							if !seen[l] {
								seen[l] = true
								fmt.Printf("NOTE (%s, not a verdict): %s\n", st.Name, l)
							}
						}
					}
				}
			}
		}
		stats = append(stats, st)
	}
	c.writeEvidence(plan, stats)
	for _, k := range c.known {
		if n := c.knownHit[k.ID]; n > 0 && k.Status == "known" {
			fmt.Printf("KNOWN-FINDING: property=%s %s [%s, %d executions]\n", k.Property, k.Fails, k.ID, n)
		}
	}
	for _, l := range c.violLines {
		fmt.Println(l)
	}
	if c.violations > 0 {
		return 1
	}
	return 0
}

// record classifies a violation: known finding or new violation (with replay file, replayed again first).
func (c *ctx) record(r Run, hist []pt.Action, v *pt.Violation, extra interface{}) {
	c.mu.Lock()
	defer c.mu.Unlock()
	for _, k := range c.known {
		if k.Property == c.id && k.Status == "known" && k.re.MatchString(v.Sig) {
			c.knownHit[k.ID]++
			return
		}
	}
	c.violations++
	if c.sigSeen == nil {
		c.sigSeen = map[string]bool{}
	}
	if c.sigSeen[v.Sig] || len(c.violLines) >= 40 {
		return // one replay file per distinct signature (the first found = fewest steps)
	}
	c.sigSeen[v.Sig] = true
	params, _ := json.Marshal(r.Params)
	rf := map[string]interface{}{
		"property": c.id, "run": r.Name, "check": r.Check, "kind": r.Kind, "params": json.RawMessage(params),
		"history": hist, "violation": v, "extra": extra,
	}
	b, _ := json.MarshalIndent(rf, "", " ")
	h := sha256.Sum256(append([]byte(v.Sig), b...))
	os.MkdirAll(filepath.Join(outDir, "replays"), 0o755)
	path := filepath.Join(outDir, "replays", fmt.Sprintf("%s-%s.json", c.id, hex.EncodeToString(h[:6])))
	os.MkdirAll(filepath.Dir(path), 0o755)
	os.WriteFile(path, b, 0o644)
	c.violLines = append(c.violLines, fmt.Sprintf("VIOLATION property=%s replay=%s sig=%s", c.id, path, v.Sig))
	fmt.Fprintf(os.Stderr, "--- violation %s\n%s\n", v.Sig, v.Msg)
}

func (c *ctx) workerBin(r Run) string {
	if r.Race {
		return c.workerRc
	}
	return c.worker
}

// runJob runs one worker process on a job and returns its output lines.
func (c *ctx) runJob(bin string, job *pt.Job, timeout time.Duration) ([]pt.Line, error) {
	c.mu.Lock()
	c.jobSeq++
	n := c.jobSeq
	c.mu.Unlock()
	jf := filepath.Join(c.scratch, fmt.Sprintf("job%d.json", n))
	of := filepath.Join(c.scratch, fmt.Sprintf("out%d.jsonl", n))
	b, _ := json.Marshal(job)
	if err := os.WriteFile(jf, b, 0o644); err != nil {
		return nil, err
	}
	defer os.Remove(jf)
	defer os.Remove(of)
	cmd := exec.Command(bin, "-test.run", "^TestWorker$", "-test.timeout", "0", "-test.count", "1")
	cmd.Env = append(os.Environ(), "VERIF_JOB="+jf, "VERIF_OUT="+of, "GOMAXPROCS=1")
	if job.Kind == "racefree" {
		// free-running pass under the race detector: real parallelism, reports go to a log file the worker parses
		rl := filepath.Join(c.scratch, fmt.Sprintf("race%d", n))
		cmd.Env = append(os.Environ(), "VERIF_JOB="+jf, "VERIF_OUT="+of, "GOMAXPROCS=4", "VERIF_RACELOG="+rl, "GORACE=halt_on_error=0 log_path="+rl)
	}
	var stderr bytes.Buffer
	cmd.Stdout = &stderr
	cmd.Stderr = &stderr
	if os.Getenv("VERIF_LOG") != "" {
		cmd.Stdout = os.Stderr
		cmd.Stderr = os.Stderr
	}
	if err := cmd.Start(); err != nil {
		return nil, err
	}
	done := make(chan error, 1)
	go func() { done <- cmd.Wait() }()
	var werr error
	select {
	case werr = <-done:
	case <-time.After(timeout):
		cmd.Process.Kill()
		<-done
		werr = fmt.Errorf("worker timeout after %v", timeout)
	}
	lines, _ := readLines(of)
	if werr != nil {
		tail := stderr.String()
		if len(tail) > 6000 {
			// keep the place where the crash is announced (the goroutine dump that follows can be long) and the end
			head := ""
			for _, mark := range []string{"\npanic: ", "\nfatal error: "} {
				if i := strings.Index(tail, mark); i >= 0 && i < len(tail)-4000 {
					head = tail[i+1:]
					if len(head) > 2500 {
						head = head[:2500]
					}
					head += "\n[...]\n"
					break
				}
			}
			tail = head + tail[len(tail)-4000:]
		}
		return lines, fmt.Errorf("%v\n%s", werr, tail)
	}
	return lines, nil
}

func readLines(path string) ([]pt.Line, error) {
	f, err := os.Open(path)
	if err != nil {
		return nil, err
	}
	defer f.Close()
	var out []pt.Line
	sc := bufio.NewScanner(f)
	sc.Buffer(make([]byte, 1<<20), 1<<28)
	for sc.Scan() {
		var l pt.Line
		if err := json.Unmarshal(sc.Bytes(), &l); err != nil {
			continue
		}
		out = append(out, l)
	}
	return out, nil
}

type node struct {
	h   []pt.Action
	key string
}

// bfs is the explicit-state search: level by level, frontier split over worker processes, global
// deduplication by canonical key in the driver.
func (c *ctx) bfs(r Run) (*runStats, error) {
	t0 := time.Now()
	st := &runStats{Name: r.Name, Exhaustive: true}
	params, _ := json.Marshal(r.Params)
	seen := map[string]bool{"": true}
	nontriv := map[string]bool{}
	outcomes := map[string]bool{}
	frontier := []node{{h: nil, key: ""}}
	st.States = 1
	par := runtime.NumCPU()
	bin := c.workerBin(r)
	sampleEvery := 1
	for depth := 1; depth <= r.Depth && len(frontier) > 0; depth++ {
		if time.Now().After(c.deadline) {
			st.Exhaustive = false
			st.Cap = fmt.Sprintf("time budget hit before depth %d", depth)
			break
		}
		chunk := (len(frontier) + par*4 - 1) / (par * 4)
		if chunk < 1 {
			chunk = 1
		}
		if chunk > 400 {
			chunk = 400
		}
		type chunkRes struct {
			lo    int
			lines []pt.Line
			err   error
		}
		var chunks [][2]int
		for lo := 0; lo < len(frontier); lo += chunk {
			hi := lo + chunk
			if hi > len(frontier) {
				hi = len(frontier)
			}
			chunks = append(chunks, [2]int{lo, hi})
		}
		results := make([]chunkRes, len(chunks))
		sem := make(chan struct{}, par)
		var wg sync.WaitGroup
		timedOut := false
		for ci, ch := range chunks {
			wg.Add(1)
			sem <- struct{}{}
			go func(ci int, lo, hi int) {
				defer wg.Done()
				defer func() { <-sem }()
				if time.Now().After(c.deadline) {
					results[ci] = chunkRes{lo: lo, err: errBudget}
					return
				}
				// run the chunk; if the worker dies, the journal names the history and successor in
				// flight: record it, skip it, and run the rest again
				pending := make([]int, 0, hi-lo)
				for i := lo; i < hi; i++ {
					pending = append(pending, i)
				}
				skip := map[int][]int{}
				var all []pt.Line
				for attempt := 0; attempt < 200 && len(pending) > 0; attempt++ {
					job := &pt.Job{Check: r.Check, Kind: "expand", Params: params}
					var keys []string
					sk := map[string][]int{}
					for j, gi := range pending {
						job.Items = append(job.Items, frontier[gi].h)
						keys = append(keys, frontier[gi].key)
						if len(skip[gi]) > 0 {
							sk[fmt.Sprint(j)] = skip[gi]
						}
					}
					job.Extra, _ = json.Marshal(map[string]interface{}{"keys": keys, "skip": sk})
					lines, err := c.runJob(bin, job, 10*time.Minute)
					done := map[int]bool{}
					var lastStart *pt.Line
					for k := range lines {
						l := lines[k]
						if l.Start != nil {
							lastStart = &lines[k]
							continue
						}
						if l.Done || l.Err != "" {
							done[l.I] = true
							l.I = pending[l.I] - lo // re-index to the chunk
							all = append(all, l)
						}
					}
					if err == nil {
						break
					}
					if lastStart == nil {
						results[ci] = chunkRes{lo: lo, lines: all, err: err}
						return
					}
					gi := pending[*lastStart.Start]
					hist := append([]pt.Action{}, frontier[gi].h...)
					if lastStart.Act != nil {
						hist = append(hist, *lastStart.Act)
					}
					v := &pt.Violation{Sig: "crash:worker-died:" + crashClass(err.Error()), Msg: "the worker process died while executing the last step of this history:\n" + firstLines(err.Error(), 40)}
					if lastStart.Viol != nil {
						v = lastStart.Viol
					}
					if strings.Contains(err.Error(), "worker timeout") && lastStart.Viol == nil {
						// The chunk did not finish within the harness' wall-clock limit. That alone is not an oracle (a loaded
						// machine is slow). The item in flight is run again, alone, in a worker of its own: its few executions
						// take milliseconds, so if they do not return within five minutes either, an execution does not return.
						one := &pt.Job{Check: r.Check, Kind: "expand", Params: params, Items: [][]pt.Action{frontier[gi].h}}
						one.Extra, _ = json.Marshal(map[string]interface{}{"keys": []string{frontier[gi].key}, "skip": map[string][]int{"0": skip[gi]}})
						_, err1 := c.runJob(bin, one, 5*time.Minute)
						if err1 == nil || !strings.Contains(err1.Error(), "worker timeout") {
							// wall-clock watchdog of the harness: not an oracle; the rest of the chunk is dropped
							results[ci] = chunkRes{lo: lo, lines: all, err: errWatchdog}
							return
						}
						v = &pt.Violation{Sig: "hang:execution-does-not-return", Msg: "expanding this history (replaying it and executing each enabled next step, a few library calls each) does not return: run alone in a process of its own it was stopped after five minutes, and before that with its chunk after ten"}
					}
					c.record(r, hist, v, nil)
					if lastStart.A != nil {
						skip[gi] = append(skip[gi], *lastStart.A)
					}
					var np []int
					for j, g := range pending {
						if done[j] || (lastStart.A == nil && g == gi) {
							continue
						}
						np = append(np, g)
					}
					pending = np
				}
				results[ci] = chunkRes{lo: lo, lines: all}
			}(ci, ch[0], ch[1])
		}
		wg.Wait()
		var next []node
		for ci, res := range results {
			if res.err == errBudget {
				timedOut = true
				continue
			}
			if res.err == errWatchdog {
				st.Exhaustive = false
				st.Cap = "a worker hit the harness wall-clock watchdog; its chunk is incomplete"
				res.err = nil
			}
			for _, l := range res.lines {
				if l.Err != "" {
					return st, fmt.Errorf("worker: item %v: %s", frontier[res.lo+l.I].h, l.Err)
				}
				if !l.Done {
					continue
				}
				parent := frontier[res.lo+l.I]
				for _, s := range l.Succs {
					st.Transitions++
					hist := append(append([]pt.Action{}, parent.h...), s.A)
					if s.Outcome != "" && len(outcomes) < 100000 {
						outcomes[s.Outcome] = true
					}
					if s.Viol != nil {
						c.record(r, hist, s.Viol, nil)
					}
					if seen[s.Key] {
						continue
					}
					seen[s.Key] = true
					st.States++
					if s.Nontrivial {
						nontriv[s.Key] = true
					}
					if st.States%sampleEvery == 0 && len(st.Samples) < 6 {
						st.Samples = append(st.Samples, map[string]interface{}{"history": hist, "outcome": s.Outcome})
						sampleEvery *= 7
					}
					if !s.Terminal {
						next = append(next, node{h: hist, key: s.Key})
					}
				}
			}
			if res.err != nil {
				return st, fmt.Errorf("worker failed without a journal: %v", res.err)
			}
			_ = ci
		}
		if timedOut {
			st.Exhaustive = false
			st.Cap = fmt.Sprintf("time budget hit inside depth %d", depth)
			break
		}
		st.DepthDone = depth
		frontier = next
		if r.MaxState > 0 && st.States > r.MaxState && depth < r.Depth {
			st.Exhaustive = false
			st.Cap = fmt.Sprintf("state cap %d hit after depth %d", r.MaxState, depth)
			break
		}
	}
	st.Nontrivial = len(nontriv)
	st.Outcomes = len(outcomes)
	st.WallS = time.Since(t0).Seconds()
	return st, nil
}

var errBudget = fmt.Errorf("budget")
var errWatchdog = fmt.Errorf("watchdog")

// crashClass extracts a short stable description of a worker crash (panic message or fatal error).
func crashClass(s string) string {
	if strings.Contains(s, "main bubble goroutine has exited but blocked goroutines remain") {
		// a goroutine of the system under test stayed blocked for ever: name the first orda frame of the first such goroutine
		ls := strings.Split(s, "\n")
		for i, l := range ls {
			if strings.HasPrefix(l, "goroutine ") && strings.Contains(l, "(durable), synctest bubble") {
				for j := i + 1; j < len(ls) && strings.TrimSpace(ls[j]) != ""; j++ {
					if f := strings.TrimSpace(ls[j]); strings.HasPrefix(f, "github.com/orda-io/orda/") {
						if k := strings.LastIndex(f, "("); k > 0 {
							f = f[:k]
						}
						return "goroutine-blocked-for-ever:" + strings.TrimPrefix(f, "github.com/orda-io/orda/")
					}
				}
			}
		}
		return "goroutine-blocked-for-ever"
	}
	for _, l := range strings.Split(s, "\n") {
		l = strings.TrimSpace(l)
		if strings.HasPrefix(l, "panic: ") || strings.HasPrefix(l, "fatal error: ") {
			if len(l) > 100 {
				l = l[:100]
			}
			return l
		}
	}
	return "unknown"
}

func firstLines(s string, n int) string {
	ls := strings.Split(s, "\n")
	if len(ls) > n {
		ls = ls[:n]
	}
	return strings.Join(ls, "\n")
}

type ShardInfo = pt.ShardInfo

// shards runs Kind-specific jobs split into r.Shards worker processes (stateless schedule search,
// fault enumeration, input enumeration).
func (c *ctx) shards(r Run) (*runStats, error) {
	t0 := time.Now()
	st := &runStats{Name: r.Name, Exhaustive: true}
	params, _ := json.Marshal(r.Params)
	n := r.Shards
	if n <= 0 {
		n = runtime.NumCPU()
	}
	infos := make([]*ShardInfo, n)
	errs := make([]error, n)
	inflight := make([]json.RawMessage, n)
	var wg sync.WaitGroup
	sem := make(chan struct{}, runtime.NumCPU())
	bin := c.workerBin(r)
	for i := 0; i < n; i++ {
		wg.Add(1)
		sem <- struct{}{}
		go func(i int) {
			defer wg.Done()
			defer func() { <-sem }()
			left := time.Until(c.deadline)
			if left < time.Second {
				left = time.Second
			}
			var skip []int
			si := &ShardInfo{Exhaustive: true}
			caseMode := false
			for attempt := 0; attempt < 400; attempt++ {
				left = time.Until(c.deadline)
				if left < time.Second {
					left = time.Second
				}
				extra, _ := json.Marshal(map[string]interface{}{"budget_s": left.Seconds() * 0.9, "seed": c.seed, "tier": c.tier, "skip": skip})
				job := &pt.Job{Check: r.Check, Kind: r.Kind, Params: params, Shard: i, Shards: n, Extra: extra}
				lines, err := c.runJob(bin, job, left+2*time.Minute)
				started := -1
				var startLine *pt.Line
				doneCase := map[int]bool{}
				finished := false
				for k := range lines {
					l := lines[k]
					switch {
					case l.I == -2 && !l.Done && len(l.Info) > 0:
						inflight[i] = l.Info // schedule search: the schedule about to run
					case l.Start != nil:
						started = *l.Start
						startLine = &lines[k]
					case l.Err != "":
						errs[i] = fmt.Errorf("%s", l.Err)
					case l.Done && l.I >= 0 && len(l.Info) > 0 && r.Cases:
						caseMode = true
						var co pt.CaseOut
						if json.Unmarshal(l.Info, &co) == nil {
							doneCase[l.I] = true
							skip = append(skip, l.I)
							si.Evaluations++
							si.States++
							si.Transitions += co.Transitions
							si.Outcomes = append(si.Outcomes, co.Outcome)
							si.Nontrivial = append(si.Nontrivial, co.Name+"|"+co.Outcome)
							if len(si.Samples) < 3 {
								si.Samples = append(si.Samples, co)
							}
							if co.Viol != nil {
								si.Violations = append(si.Violations, pt.ShardViol{Viol: *co.Viol, Extra: co.Extra})
							}
						}
					case l.Done && len(l.Info) > 0:
						finished = true
						if !caseMode {
							var full ShardInfo
							if e := json.Unmarshal(l.Info, &full); e == nil {
								si = &full
							}
						}
					}
				}
				caseMode = r.Cases
				if err == nil || finished {
					infos[i] = si
					break
				}
				if !caseMode || started < 0 || doneCase[started] {
					if errs[i] == nil {
						errs[i] = err
					}
					break
				}
				// the worker died or had to exit inside case `started`
				v := pt.Violation{Sig: "crash:worker-died:" + crashClass(err.Error()), Msg: "the worker process died while executing this case:\n" + firstLines(err.Error(), 40)}
				var ex json.RawMessage
				for k := range lines {
					if lines[k].Start != nil && *lines[k].Start == started {
						if lines[k].Viol != nil {
							v = *lines[k].Viol
						}
						if len(lines[k].Info) > 0 {
							ex = lines[k].Info
						}
					}
				}
				_ = startLine
				si.Violations = append(si.Violations, pt.ShardViol{Viol: v, Extra: ex})
				si.Evaluations++
				si.States++
				si.Transitions++
				skip = append(skip, started)
				infos[i] = si
			}
		}(i)
	}
	wg.Wait()
	nontriv := map[string]bool{}
	outcomes := map[string]bool{}
	ntExtra := 0
	var extras []json.RawMessage
	for i := 0; i < n; i++ {
		if errs[i] != nil {
			// a dead worker without a final line: crash of the system under test or of the harness
			v := &pt.Violation{Sig: "crash:worker-died", Msg: firstLines(errs[i].Error(), 40)}
			var extra interface{} = map[string]int{"shard": i, "shards": n}
			if len(inflight[i]) > 0 {
				v.Sig = "crash:worker-died:" + crashClass(errs[i].Error())
				v.Msg = "the worker process died while executing the schedule recorded in this replay file:\n" + firstLines(errs[i].Error(), 60)
				extra = inflight[i]
			}
			c.record(r, nil, v, extra)
			st.Exhaustive = false
			st.Cap = "a worker died"
			continue
		}
		si := infos[i]
		if si == nil {
			return st, fmt.Errorf("shard %d returned nothing", i)
		}
		st.States += si.States
		st.Transitions += si.Transitions
		if si.States == 0 {
			st.States += si.Evaluations
			st.Transitions += si.Evaluations
		}
		for _, k := range si.Nontrivial {
			nontriv[fmt.Sprintf("%s", k)] = true
		}
		ntExtra += si.NontrivialCount
		for _, k := range si.Outcomes {
			outcomes[k] = true
		}
		if len(st.Samples) < 6 {
			for _, s := range si.Samples {
				if len(st.Samples) < 6 {
					st.Samples = append(st.Samples, s)
				}
			}
		}
		if !si.Exhaustive {
			st.Exhaustive = false
			st.Cap = si.Cap
		}
		for _, sv := range si.Violations {
			v := sv.Viol
			c.record(r, sv.Hist, &v, sv.Extra)
		}
		if len(si.Extra) > 0 {
			extras = append(extras, si.Extra)
		}
	}
	if len(extras) > 0 && len(extras) <= 4 {
		st.Extra = extras
	}
	st.Nontrivial = len(nontriv) + ntExtra
	st.Outcomes = len(outcomes)
	st.DepthDone = r.Depth
	st.WallS = time.Since(t0).Seconds()
	return st, nil
}

func (c *ctx) writeEvidence(plan Plan, stats []*runStats) {
	states, trans, nt, outc := 0, 0, 0, 0
	exhaustive := true
	var samples []interface{}
	var caps []string
	var supp []*runStats
	for _, s := range stats {
		if s.Supp {
			supp = append(supp, s)
			continue
		}
		states += s.States
		trans += s.Transitions
		nt += s.Nontrivial
		outc += s.Outcomes
		if !s.Exhaustive {
			exhaustive = false
			caps = append(caps, s.Name+": "+s.Cap)
		}
		for _, x := range s.Samples {
			if len(samples) < 12 {
				samples = append(samples, map[string]interface{}{"run": s.Name, "case": x})
			}
		}
	}
	if len(samples) == 0 {
		samples = append(samples, "no case was explored")
	}
	var knownIDs []string
	for k, n := range c.knownHit {
		knownIDs = append(knownIDs, fmt.Sprintf("%s x%d", k, n))
	}
	sort.Strings(knownIDs)
	cov := map[string]interface{}{
		"states":                        states,
		"transitions":                   trans,
		"traces_validated_against_impl": trans,
		"evaluations":                   trans,
		"distinct_nontrivial":           nt,
		"distinct_outcomes":             outc,
		"rule":                          plan.Rule,
		"samples":                       samples,
		"exhaustive":                    exhaustive,
		"caps_hit":                      caps,
		"runs":                          stats,
		"known_findings_hit":            knownIDs,
		"explanation":                   "every transition is one execution of the real orda code (no separate model); counts are measured by the driver",
	}
	if len(supp) > 0 {
		cov["supplementary_sampling_runs"] = supp
	}
	if len(c.instrRep) > 0 {
		cov["instrumentation"] = json.RawMessage(c.instrRep)
	}
	ev := map[string]interface{}{
		"property_id": c.id,
		"tier":        c.tier,
		"seed":        c.seed,
		"level":       plan.Level,
		"coverage":    cov,
		"assumptions": plan.Assume,
		"wall_s":      time.Since(c.start).Seconds(),
		"violations":  c.violations,
	}
	b, _ := json.MarshalIndent(ev, "", " ")
	os.MkdirAll(filepath.Join(outDir, "evidence"), 0o755)
	os.WriteFile(filepath.Join(outDir, "evidence", c.id+".json"), b, 0o644)
}

// runReplay re-executes a replay file without the explorer and prints what happens.
func runReplay(path string) int {
	b, err := os.ReadFile(path)
	if err != nil {
		fmt.Fprintln(os.Stderr, err)
		return 2
	}
	var rf struct {
		Property string          `json:"property"`
		Check    string          `json:"check"`
		Kind     string          `json:"kind"`
		Params   json.RawMessage `json:"params"`
		History  []pt.Action     `json:"history"`
		Extra    json.RawMessage `json:"extra"`
	}
	if err := json.Unmarshal(b, &rf); err != nil {
		fmt.Fprintln(os.Stderr, err)
		return 2
	}
	c := &ctx{id: rf.Property, scratch: newScratch(), start: time.Now()}
	defer os.RemoveAll(c.scratch)
	bin, _, err := buildWorker(c.scratch, false)
	if err != nil {
		fmt.Fprintln(os.Stderr, err)
		return 3
	}
	kind := "replay"
	if rf.Kind != "" && rf.Kind != "bfs" {
		kind = rf.Kind + "-replay"
	}
	job := &pt.Job{Check: rf.Check, Kind: kind, Params: rf.Params, Items: [][]pt.Action{rf.History}, Extra: rf.Extra}
	lines, err := c.runJob(bin, job, 10*time.Minute)
	viol := false
	for _, l := range lines {
		if len(l.Info) > 0 {
			var pretty bytes.Buffer
			json.Indent(&pretty, l.Info, "", " ")
			fmt.Println(pretty.String())
			if bytes.Contains(l.Info, []byte(`"viol":{`)) {
				viol = true
			}
		}
		if l.Err != "" {
			fmt.Println("error:", l.Err)
		}
	}
	if err != nil {
		fmt.Println("worker died:", firstLines(err.Error(), 40))
		viol = true
	}
	if viol {
		fmt.Printf("VIOLATION property=%s replay=%s\n", rf.Property, path)
		return 1
	}
	fmt.Println("replay: no violation")
	return 0
}
