package main

// wp mirrors w.WParams.
type wp struct {
	Type   string  `json:"type"`
	N      int     `json:"n"`
	Alpha  string  `json:"alpha,omitempty"`
	Orders []int32 `json:"orders,omitempty"`
	Prefix string  `json:"prefix,omitempty"`
	Depth  int     `json:"depth,omitempty"`
}

var plans = map[string]func(tier string) Plan{}

const assumeE1 = "replicas are real orda LOCAL_ONLY clients; the harness plays the server log (total order, per-replica cursor) as DESIGN.md §3.5 describes"
const assumeInstr = "range-over-map order and logging are owned by the build-time overlay rewrite (tools/instr); UIDs are scripted through crypto/rand.Reader"

func init() {
	plans["C03"] = func(tier string) Plan {
		p := Plan{ID: "C03", Level: "model_checking",
			Rule: "breadth-first search over all call sequences (valid and invalid argument classes, transactions) on one replica; " +
				"a state is the canonical export (meta, snapshot, pending operations); non-trivial = at least one user operation queued; " +
				"every call is compared with a plain Go reference (int32 / map / slice / JSON tree with container identities)",
			Assume: []string{assumeE1, assumeInstr, "reference models in h/w/c03.go"}}
		if tier == "quick" {
			p.BudgetS = 240
			p.Runs = []Run{
				{Name: "counter-d4", Check: "C03", Params: wp{Type: "counter", Alpha: "rich"}, Depth: 4},
				{Name: "map-d4", Check: "C03", Params: wp{Type: "map", Alpha: "rich"}, Depth: 4},
				{Name: "list-d4", Check: "C03", Params: wp{Type: "list"}, Depth: 4},
				{Name: "doc-d3", Check: "C03", Params: wp{Type: "doc"}, Depth: 3},
				{Name: "docarr-d4", Check: "C03", Params: wp{Type: "doc", Prefix: "arr4"}, Depth: 3},
			}
		} else {
			p.BudgetS = 3000
			p.Runs = []Run{
				{Name: "counter-d6", Check: "C03", Params: wp{Type: "counter", Alpha: "rich"}, Depth: 6},
				{Name: "map-d6", Check: "C03", Params: wp{Type: "map", Alpha: "rich"}, Depth: 6},
				{Name: "list-d5", Check: "C03", Params: wp{Type: "list", Alpha: "rich"}, Depth: 5, MaxState: 400000},
				{Name: "doc-d4", Check: "C03", Params: wp{Type: "doc", Alpha: "rich"}, Depth: 4, MaxState: 400000},
			}
		}
		return p
	}
}

// e1p mirrors w.E1Params.
type e1p struct {
	wp
	Oracles []string `json:"oracles"`
}

func e1run(name, typ string, n, depth int, alpha string, oracles []string, orders []int32, prefix string, maxState int) Run {
	return Run{Name: name, Check: "E1", Depth: depth, MaxState: maxState,
		Params: e1p{wp: wp{Type: typ, N: n, Alpha: alpha, Orders: orders, Prefix: prefix}, Oracles: oracles}}
}

func init() {
	plans["C01"] = func(tier string) Plan {
		p := Plan{ID: "C01", Level: "model_checking",
			Rule: "breadth-first search over all histories of {local call on replica i, sync(i)} (sync = pull the log after the cursor in log order, then push); " +
				"state = canonical export of every replica + pending operations + log + cursors; at the quiescence closure of EVERY state all replicas and a " +
				"server copy (whole log as remote operations) must expose equal JSON view, sizes and element reads; non-trivial = some replica has both issued " +
				"local operations and applied another replica's operations; document runs also enumerate the map-iteration order per replica (sorted/reversed)",
			Assume: []string{assumeE1, assumeInstr}}
		o := []string{"converge"}
		if tier == "quick" {
			p.BudgetS = 300
			p.Runs = []Run{
				e1run("counter-n2-d5", "counter", 2, 5, "", o, nil, "", 0),
				e1run("map-n2-d5", "map", 2, 5, "", o, nil, "", 0),
				e1run("map-n3-d5", "map", 3, 5, "", o, nil, "", 0),
				e1run("map-live-n3-d5", "map", 3, 5, "", o, nil, "live", 0),
				e1run("list-n2-d4", "list", 2, 4, "", o, nil, "", 0),
				e1run("list-live-n3-d4", "list", 3, 4, "", o, nil, "live", 0),
				e1run("doc-n2-d4", "doc", 2, 4, "", o, nil, "", 0),
				e1run("doc-n2-d4-order01", "doc", 2, 4, "", o, []int32{0, 1}, "", 0),
				e1run("docnest-n2-d5-order01", "doc", 2, 5, "nest", o, []int32{0, 1}, "", 0),
				e1run("docnest-n2-d5-order10", "doc", 2, 5, "nest", o, []int32{1, 0}, "", 0),
			}
		} else {
			p.BudgetS = 3300
			p.Runs = []Run{
				e1run("counter-n3-d6", "counter", 3, 6, "rich", o, nil, "", 0),
				e1run("map-n2-d7", "map", 2, 7, "rich", o, nil, "", 600000),
				e1run("map-n3-d5", "map", 3, 5, "", o, nil, "", 600000),
				e1run("list-n2-d6", "list", 2, 6, "batch", o, nil, "", 600000),
				e1run("list-n3-d5", "list", 3, 5, "", o, nil, "", 600000),
				e1run("list-deep-n2-d3", "list", 2, 3, "", o, nil, "deep-list", 0),
				e1run("doc-n2-d5", "doc", 2, 5, "", o, nil, "", 600000),
				e1run("doc-n2-d4-order01", "doc", 2, 4, "rich", o, []int32{0, 1}, "", 600000),
				e1run("doc-n2-d4-order10", "doc", 2, 4, "rich", o, []int32{1, 0}, "", 600000),
				e1run("doc-n3-d4", "doc", 3, 4, "", o, nil, "", 600000),
				e1run("doc-deep-n2-d3", "doc", 2, 3, "", o, nil, "deep-doc", 0),
			}
		}
		return p
	}
	plans["C02"] = func(tier string) Plan {
		p := Plan{ID: "C02", Level: "model_checking",
			Rule: "same search as C01 with alphabets biased to one shared key / position; at the closure of every state each replica and the server copy " +
				"must equal a reference computed from the SET of emitted operations only (sum; per-key greatest timestamp; RGA tree with newest-first siblings, " +
				"per-element newest update, delete dominates); non-trivial as in C01",
			Assume: []string{assumeE1, assumeInstr, "reference in h/w/c02.go resolves document containers only when they are the top-level value of the creating operation"}}
		o := []string{"reference"}
		if tier == "quick" {
			p.BudgetS = 300
			p.Runs = []Run{
				e1run("counter-n2-d5", "counter", 2, 5, "", o, nil, "", 0),
				e1run("map-n2-d5", "map", 2, 5, "", o, nil, "", 0),
				e1run("map-n3-d5", "map", 3, 5, "", o, nil, "", 0),
				e1run("map-live-n3-d5", "map", 3, 5, "", o, nil, "live", 0),
				e1run("list-n2-d4", "list", 2, 4, "", o, nil, "", 0),
				e1run("list-n3-d4", "list", 3, 4, "", o, nil, "", 0),
				e1run("list-live-n3-d4", "list", 3, 4, "", o, nil, "live", 0),
				e1run("doc-live-n3-d3", "doc", 3, 3, "c02", o, nil, "live", 0),
				e1run("doc-n2-d4", "doc", 2, 4, "c02", o, nil, "", 0),
			}
		} else {
			p.BudgetS = 3300
			p.Runs = []Run{
				e1run("counter-n3-d6", "counter", 3, 6, "rich", o, nil, "", 0),
				e1run("counter-n4-d4", "counter", 4, 4, "", o, nil, "", 0),
				e1run("map-n2-d7", "map", 2, 7, "rich", o, nil, "", 600000),
				e1run("map-n3-d5", "map", 3, 5, "", o, nil, "", 600000),
				e1run("map-n4-d4", "map", 4, 4, "", o, nil, "", 600000),
				e1run("list-n2-d6", "list", 2, 6, "batch", o, nil, "", 600000),
				e1run("list-n3-d5", "list", 3, 5, "", o, nil, "", 600000),
				e1run("list-n4-d4", "list", 4, 4, "", o, nil, "", 600000),
				e1run("doc-n2-d5", "doc", 2, 5, "c02", o, nil, "", 600000),
				e1run("doc-n3-d4", "doc", 3, 4, "c02", o, nil, "", 600000),
			}
		}
		return p
	}
	plans["C04"] = func(tier string) Plan {
		p := Plan{ID: "C04", Level: "model_checking",
			Rule: "breadth-first search over insert/delete/update histories (single and batch) on List and Document arrays; after EVERY step on EVERY replica: " +
				"each element whose insert was received and no delete received is visible exactly once (by unique tags), no deleted or unknown element is visible, " +
				"a local insert reads back at its index, the internal total order restricted to earlier elements is unchanged by the step, and all replicas " +
				"agree on the relative order of common elements; non-trivial as in C01",
			Assume: []string{assumeE1, assumeInstr}}
		o := []string{"elements", "converge"}
		if tier == "quick" {
			p.BudgetS = 300
			p.Runs = []Run{
				e1run("list-n2-d4", "list", 2, 4, "batch", o, nil, "", 0),
				e1run("docarr-n2-d5", "doc", 2, 5, "arr", o, nil, "", 0),
			}
		} else {
			p.BudgetS = 3300
			p.Runs = []Run{
				e1run("list-n2-d6", "list", 2, 6, "batch", o, nil, "", 600000),
				e1run("list-n3-d5", "list", 3, 5, "", o, nil, "", 600000),
				e1run("list-n4-d4", "list", 4, 4, "", o, nil, "", 600000),
				e1run("list-deep-n2-d3", "list", 2, 3, "batch", o, nil, "deep-list", 0),
				e1run("docarr-n2-d5", "doc", 2, 5, "arr", o, nil, "", 600000),
				e1run("docarr-n3-d4", "doc", 3, 4, "arr", o, nil, "", 600000),
				e1run("docarr-deep-n2-d3", "doc", 2, 3, "arr", o, nil, "deep-doc", 0),
			}
		}
		return p
	}
}

func e1runS(name, typ string, n, depth int, alpha string, oracles []string, maxSkips, maxState int) Run {
	return Run{Name: name, Check: "E1", Depth: depth, MaxState: maxState,
		Params: struct {
			e1p
			MaxSkips int `json:"max_skips"`
		}{e1p{wp: wp{Type: typ, N: n, Alpha: alpha}, Oracles: oracles}, maxSkips}}
}

func init() {
	plans["C09"] = func(tier string) Plan {
		p := Plan{ID: "C09", Level: "model_checking",
			Rule: "breadth-first search over histories whose alphabet adds Transaction(body) for bodies {c}, {c,c0}, {c,invalid call}, committed or failing after the calls ran, " +
				"and deliveries of the next committed unit truncated to its first m operations or with an over-announced length; oracles: a failing body leaves view, export, " +
				"pending operations and identifiers exactly as before AND every later state equals the state of the twin history without the failed transaction; a committed body " +
				"queues one unit [header(n), n-1 operations] with consecutive seq; an incomplete unit returns an error, does not panic and changes nothing",
			Assume: []string{assumeE1, assumeInstr, "at most max_skips failed transactions / refused units per history (1 quick, 2 thorough)"}}
		o := []string{"tx", "badunit", "converge"}
		if tier == "quick" {
			p.BudgetS = 300
			p.Runs = []Run{
				e1runS("counter-n2-d4", "counter", 2, 4, "tx", o, 1, 0),
				e1runS("map-n2-d4", "map", 2, 4, "tx", o, 1, 0),
				e1runS("list-n2-d3", "list", 2, 3, "tx", o, 1, 0),
				e1runS("doc-n2-d3", "doc", 2, 3, "tx", o, 1, 0),
			}
		} else {
			p.BudgetS = 3300
			p.Runs = []Run{
				e1runS("counter-n2-d6", "counter", 2, 6, "tx", o, 2, 600000),
				e1runS("map-n2-d5", "map", 2, 5, "tx rich", o, 2, 600000),
				e1runS("list-n2-d4", "list", 2, 4, "tx batch", o, 2, 600000),
				e1runS("doc-n2-d4", "doc", 2, 4, "tx", o, 2, 600000),
			}
		}
		return p
	}
	plans["C10"] = func(tier string) Plan {
		p := Plan{ID: "C10", Level: "model_checking",
			Rule: "breadth-first search over multi-replica histories with the extra action restore(i): replica i is replaced by a fresh instance that imported its exported meta+snapshot; " +
				"at the restore: equal reads and equal re-export; at EVERY later state of every continuation: the whole world (views, exports, newly emitted operations, log) equals the twin " +
				"history without the restore; at the closure of every state: server copy restored from its snapshot at every log position v + operations after v equals the whole-log replay",
			Assume: []string{assumeE1, assumeInstr, "restore(i) is offered when replica i has nothing pending (the buffer is not part of the snapshot)"}}
		o := []string{"restore", "snapresume", "converge"}
		if tier == "quick" {
			p.BudgetS = 300
			p.Runs = []Run{
				e1runS("counter-n2-d4", "counter", 2, 4, "", o, 1, 0),
				e1runS("map-n2-d5", "map", 2, 5, "", o, 1, 0),
				e1runS("list-n2-d4", "list", 2, 4, "batch", o, 1, 0),
				e1runS("doc-n2-d4", "doc", 2, 4, "", o, 1, 0),
			}
		} else {
			p.BudgetS = 3300
			p.Runs = []Run{
				e1runS("counter-n2-d6", "counter", 2, 6, "", o, 1, 600000),
				e1runS("map-n2-d6", "map", 2, 6, "rich", o, 1, 600000),
				e1runS("list-n2-d6", "list", 2, 6, "batch", o, 1, 600000),
				e1runS("list-n3-d4", "list", 3, 4, "", o, 1, 600000),
				e1runS("doc-n2-d5", "doc", 2, 5, "", o, 1, 600000),
				e1runS("doc-rich-n2-d4", "doc", 2, 4, "rich", o, 1, 600000),
			}
		}
		return p
	}
}

func init() {
	plans["C14"] = func(tier string) Plan {
		deep := tier != "quick"
		return Plan{ID: "C14", Level: "exploration", BudgetS: 600,
			Rule: "every operation kind the public API can produce x every value of a finite grammar of JSON-representable Go values (numeric kinds at their boundaries, strings with " +
				"separators/unicode/control characters, pointers, structs, typed maps and slices, empty containers, nesting); each produced operation must survive model<->typed conversion, " +
				"protobuf, the BSON operation document and the echo service with equal id/type/body, and the stored form applied to a replica in the origin's prior state must give the " +
				"origin's state; distinct non-trivial = distinct (operation kind, wire body) produced",
			Assume: []string{assumeInstr, "native fuzzing of message bytes (sampling) is outside this family and not claimed"},
			Runs:   []Run{{Name: "grammar", Check: "C14", Kind: "enum-c14", Params: map[string]bool{"deep": deep}, Shards: 16}}}
	}
	plans["C15"] = func(tier string) Plan {
		p := Plan{ID: "C15", Level: "model_checking",
			Rule: "(a) exhaustive grid over (era, lamport, client id, delimiter): identifier key injective, Compare irreflexive/antisymmetric/total/transitive (all pairs and triples of a sub-grid), " +
				"Timestamp and OperationID orders agree, delimiter outside the order; (b) breadth-first search over multi-replica histories with transactions, failing bodies and refused calls: " +
				"own operations numbered 1,2,3.. without gap, lamport strictly increasing, every new operation ordered after everything applied, identifiers of every exported state pairwise " +
				"distinct with pairwise distinct index keys; deep-prefix start states bring clocks to two digits next to a batch of 12",
			Assume: []string{assumeE1, assumeInstr, "identifier magnitudes beyond the grid are not claimed"}}
		o := []string{"ids", "converge"}
		if tier == "quick" {
			p.BudgetS = 300
			p.Runs = []Run{
				{Name: "grid", Check: "C15", Kind: "grid", Params: map[string]int{"max_lamport": 300, "max_delim": 40, "sub": 12}, Shards: 1},
				e1runS("counter-n2-d4", "counter", 2, 4, "tx", o, 1, 0),
				e1runS("map-n2-d4", "map", 2, 4, "tx", o, 1, 0),
				e1runS("list-n2-d3", "list", 2, 3, "tx batch", o, 1, 0),
				e1runS("doc-n2-d3", "doc", 2, 3, "tx", o, 1, 0),
				e1run("list-deep-n2-d2", "list", 2, 2, "batch", o, nil, "deep-list", 0),
				e1run("doc-deep-n2-d2", "doc", 2, 2, "arr", o, nil, "deep-doc", 0),
			}
		} else {
			p.BudgetS = 3300
			p.Runs = []Run{
				{Name: "grid", Check: "C15", Kind: "grid", Params: map[string]int{"max_lamport": 1200, "max_delim": 120, "sub": 40}, Shards: 1},
				e1runS("counter-n3-d5", "counter", 3, 5, "tx", o, 2, 600000),
				e1runS("map-n2-d5", "map", 2, 5, "tx rich", o, 2, 600000),
				e1runS("list-n2-d4", "list", 2, 4, "tx batch", o, 2, 600000),
				e1runS("doc-n2-d4", "doc", 2, 4, "tx", o, 2, 600000),
				e1run("list-deep-n2-d4", "list", 2, 4, "batch", o, nil, "deep-list", 600000),
				e1run("doc-deep-n2-d4", "doc", 2, 4, "arr", o, nil, "deep-doc", 600000),
			}
		}
		return p
	}
}
