package main

// wp mirrors w.WParams.
type wp struct {
	Type   string  `json:"type"`
	N      int     `json:"n"`
	Alpha  string  `json:"alpha,omitempty"`
	Orders []int32 `json:"orders,omitempty"`
	Prefix string  `json:"prefix,omitempty"`
	Depth  int     `json:"depth,omitempty"`
}

var plans = map[string]func(tier string) Plan{}

const assumeE1 = "replicas are real orda LOCAL_ONLY clients; the harness plays the server log (total order, per-replica cursor) as DESIGN.md §3.5 describes"
const assumeInstr = "range-over-map order and logging are owned by the build-time overlay rewrite (tools/instr); UIDs are scripted through crypto/rand.Reader"

func init() {
	plans["C03"] = func(tier string) Plan {
		p := Plan{ID: "C03", Level: "model_checking",
			Rule: "breadth-first search over all call sequences (valid and invalid argument classes, transactions) on one replica; " +
				"a state is the canonical export (meta, snapshot, pending operations); non-trivial = at least one user operation queued; " +
				"every call is compared with a plain Go reference (int32 / map / slice / JSON tree with container identities)",
			Assume: []string{assumeE1, assumeInstr, "reference models in h/w/c03.go"}}
		if tier == "quick" {
			p.BudgetS = 600
			p.Runs = []Run{
				{Name: "counter-d4", Check: "C03", Params: wp{Type: "counter", Alpha: "rich"}, Depth: 4},
				{Name: "map-d4", Check: "C03", Params: wp{Type: "map", Alpha: "rich"}, Depth: 4},
				{Name: "list-d4", Check: "C03", Params: wp{Type: "list", Alpha: "rich"}, Depth: 4},
				{Name: "doc-d4", Check: "C03", Params: wp{Type: "doc"}, Depth: 4},
				{Name: "docarr-d4", Check: "C03", Params: wp{Type: "doc", Prefix: "arr4"}, Depth: 3},
				{Name: "docnest-d3", Check: "C03", Params: wp{Type: "doc", Prefix: "nest3"}, Depth: 3},
				{Name: "map-tomb-d3", Check: "C03", Params: wp{Type: "map", Alpha: "rich", Prefix: "tomb"}, Depth: 3}, // (two failing transactions in a row restore from a snapshot that holds a tombstone)
				{Name: "doc-gotypes-d3", Check: "C03", Params: wp{Type: "doc", Alpha: "gotypes"}, Depth: 3},           // fixed-size arrays, structs, pointers, typed maps as values
			}
		} else {
			p.BudgetS = 3000
			p.Runs = []Run{
				{Name: "counter-d6", Check: "C03", Params: wp{Type: "counter", Alpha: "rich"}, Depth: 6},
				{Name: "map-d6", Check: "C03", Params: wp{Type: "map", Alpha: "rich"}, Depth: 6},
				{Name: "list-d5", Check: "C03", Params: wp{Type: "list", Alpha: "rich"}, Depth: 5, MaxState: 400000},
				{Name: "doc-d4", Check: "C03", Params: wp{Type: "doc", Alpha: "rich"}, Depth: 4, MaxState: 400000},
				{Name: "docarr-d4", Check: "C03", Params: wp{Type: "doc", Prefix: "arr4"}, Depth: 4, MaxState: 400000},
				{Name: "docnest-d4", Check: "C03", Params: wp{Type: "doc", Prefix: "nest3", Alpha: "rich"}, Depth: 4, MaxState: 400000},
				{Name: "doc-gotypes-d4", Check: "C03", Params: wp{Type: "doc", Alpha: "gotypes"}, Depth: 4, MaxState: 400000},
			}
		}
		return p
	}
}

// e1p mirrors w.E1Params.
type e1p struct {
	wp
	Oracles []string `json:"oracles"`
}

func e1run(name, typ string, n, depth int, alpha string, oracles []string, orders []int32, prefix string, maxState int) Run {
	return Run{Name: name, Check: "E1", Depth: depth, MaxState: maxState,
		Params: e1p{wp: wp{Type: typ, N: n, Alpha: alpha, Orders: orders, Prefix: prefix}, Oracles: oracles}}
}

func init() {
	plans["C01"] = func(tier string) Plan {
		p := Plan{ID: "C01", Level: "model_checking",
			Rule: "breadth-first search over all histories of {local call on replica i, sync(i)} (sync = pull the log after the cursor in log order, then push); " +
				"state = canonical export of every replica + pending operations + log + cursors; at the quiescence closure of EVERY state all replicas and a " +
				"server copy (whole log as remote operations) must expose equal JSON view, sizes and element reads; non-trivial = some replica has both issued " +
				"local operations and applied another replica's operations; document runs also enumerate the map-iteration order per replica (sorted/reversed)",
			Assume: []string{assumeE1, assumeInstr}}
		o := []string{"converge"}
		if tier == "quick" {
			p.BudgetS = 300
			p.Runs = []Run{
				e1run("counter-n2-d5", "counter", 2, 5, "", o, nil, "", 0),
				e1run("map-n2-d5", "map", 2, 5, "", o, nil, "", 0),
				e1run("map-n3-d5", "map", 3, 5, "", o, nil, "", 0),
				e1run("map-live-n3-d5", "map", 3, 5, "", o, nil, "live", 0),
				e1run("list-n2-d5", "list", 2, 5, "batch", o, nil, "", 0),
				e1run("list-live-n3-d4", "list", 3, 4, "", o, nil, "live", 0),
				e1run("list-batch-live-n2-d4", "list", 2, 4, "batch", o, nil, "live", 0), // updates and deletes of several elements at once meet single ones
				e1run("doc-n2-d5", "doc", 2, 5, "", o, nil, "", 0),
				e1run("doc-live-n3-d3", "doc", 3, 3, "", o, nil, "live", 0),
				e1run("doc-live-n3-key1-d5", "doc", 3, 5, "key1", o, nil, "live", 0),
				e1run("doc-n2-d4-order01", "doc", 2, 4, "", o, []int32{0, 1}, "", 0),
				e1run("docnest-n2-d5-order01", "doc", 2, 5, "nest", o, []int32{0, 1}, "", 0),
				e1run("docnest-n2-d5-order10", "doc", 2, 5, "nest", o, []int32{1, 0}, "", 0),
				e1run("list-skew-n3-d4", "list", 3, 4, "mid", o, nil, "skew", 0),
				e1run("docarr-skew-n3-d4", "doc", 3, 4, "arr", o, nil, "skew", 0),
				e1run("map-skew-n3-d4", "map", 3, 4, "", o, nil, "skew", 0),
				e1run("map-tomb-n3-d4", "map", 3, 4, "", o, nil, "tomb", 0),
				e1run("list-tomb-n2-d4", "list", 2, 4, "mid", o, nil, "tomb", 0),
				e1run("doc-tomb-n2-d3", "doc", 2, 3, "", o, nil, "tomb", 0),
				e1run("counter-bound-n3-d4", "counter", 3, 4, "wrap", o, nil, "bound", 0),
				e1run("counter-rich-n2-d5", "counter", 2, 5, "rich", o, nil, "", 0),
				e1runSP("doc-live-n2-d2-tx", "doc", 2, 2, "tx", o, 1, 0, "live"), // failed transactions (rollback + replay) inside the history
				// writes that repeat the value the key or slot already shows (next to concurrent writes of other values)
				e1run("doc-same-key1-n2-d5", "doc", 2, 5, "key1 same", o, nil, "", 0),
				e1run("doc-same-key1-n3-d4", "doc", 3, 4, "key1 same", o, nil, "live", 0),
				e1run("map-same-n2-d5", "map", 2, 5, "same", o, nil, "", 0),
				e1run("list-same-n2-d4", "list", 2, 4, "same", o, nil, "live", 0),
				e1run("docarr-same-n2-d3", "doc", 2, 3, "arr same", o, nil, "live", 0),
				// the application hands the same map object over several times and changes it in between (also inside transactions, also before a rollback)
				e1runS("doc-alias-n2-d3-tx", "doc", 2, 3, "alias tx", o, 1, 0),
				e1runS("map-alias-n2-d3-tx", "map", 2, 3, "rich alias tx", o, 1, 0),
				e1runSP("list-live-n2-d2-tx", "list", 2, 2, "tx", o, 1, 0, "live"),
			}
		} else {
			p.BudgetS = 3300
			p.Runs = []Run{
				e1runSP("doc-live-n2-d3-tx", "doc", 2, 3, "tx", o, 1, 600000, "live"),
				e1runSP("list-live-n2-d3-tx", "list", 2, 3, "tx", o, 1, 600000, "live"),
				e1run("counter-n3-d7", "counter", 3, 7, "rich", o, nil, "", 600000),
				e1run("map-n2-d7", "map", 2, 7, "rich", o, nil, "", 600000),
				e1run("map-n3-d9", "map", 3, 9, "", o, nil, "", 600000),
				e1run("list-n2-d6", "list", 2, 6, "batch", o, nil, "", 600000),
				e1run("list-n3-d7", "list", 3, 7, "", o, nil, "", 600000),
				e1run("list-deep-n2-d5", "list", 2, 5, "", o, nil, "deep-list", 600000),
				e1run("doc-n2-d5", "doc", 2, 5, "", o, nil, "", 600000),
				e1run("doc-n2-d4-order01", "doc", 2, 4, "rich", o, []int32{0, 1}, "", 600000),
				e1run("doc-n2-d4-order10", "doc", 2, 4, "rich", o, []int32{1, 0}, "", 600000),
				e1run("doc-n3-d5", "doc", 3, 5, "", o, nil, "", 600000),
				e1run("doc-deep-n2-d5", "doc", 2, 5, "", o, nil, "deep-doc", 600000),
				e1run("list-skew-n3-d5", "list", 3, 5, "mid", o, nil, "skew", 600000),
				e1run("docarr-skew-n3-d5", "doc", 3, 5, "arr", o, nil, "skew", 600000),
				e1run("map-skew-n3-d9", "map", 3, 9, "", o, nil, "skew", 600000),
			}
		}
		return p
	}
	plans["C02"] = func(tier string) Plan {
		p := Plan{ID: "C02", Level: "model_checking",
			Rule: "same search as C01 with alphabets biased to one shared key / position; at the closure of every state each replica and the server copy " +
				"must equal a reference computed from the SET of emitted operations only (sum; per-key greatest timestamp; RGA tree with newest-first siblings, " +
				"per-element newest update, delete dominates); non-trivial as in C01",
			Assume: []string{assumeE1, assumeInstr, "reference in h/w/c02.go resolves document containers only when they are the top-level value of the creating operation"}}
		o := []string{"reference"}
		if tier == "quick" {
			p.BudgetS = 300
			p.Runs = []Run{
				e1run("counter-n2-d5", "counter", 2, 5, "", o, nil, "", 0),
				e1run("map-n2-d5", "map", 2, 5, "", o, nil, "", 0),
				e1run("map-n3-d5", "map", 3, 5, "", o, nil, "", 0),
				e1run("map-live-n3-d5", "map", 3, 5, "", o, nil, "live", 0),
				e1run("list-n2-d4", "list", 2, 4, "", o, nil, "", 0),
				e1run("list-n3-d4", "list", 3, 4, "", o, nil, "", 0),
				e1run("list-live-n3-d4", "list", 3, 4, "", o, nil, "live", 0),
				e1run("list-batch-live-n2-d4", "list", 2, 4, "batch", o, nil, "live", 0), // updates and deletes of several elements at once meet single ones
				e1run("doc-live-n3-d3", "doc", 3, 3, "c02", o, nil, "live", 0),
				e1run("doc-live-n3-key1-d5", "doc", 3, 5, "key1", o, nil, "live", 0),
				e1run("doc-n2-d4", "doc", 2, 4, "c02", o, nil, "", 0),
				e1run("list-skew-n3-d4", "list", 3, 4, "mid", o, nil, "skew", 0),
				e1run("map-skew-n3-d4", "map", 3, 4, "", o, nil, "skew", 0),
				e1run("map-tomb-n3-d4", "map", 3, 4, "", o, nil, "tomb", 0),
				e1run("list-tomb-n2-d4", "list", 2, 4, "mid", o, nil, "tomb", 0),
				e1run("counter-bound-n3-d4", "counter", 3, 4, "wrap", o, nil, "bound", 0),
				e1run("counter-rich-n2-d5", "counter", 2, 5, "rich", o, nil, "", 0),
				e1runSP("map-skew-n3-d4-tx", "map", 3, 4, "tx", o, 1, 0, "skew"), // a failed transaction (rollback + replay) between conflicting writes
				e1run("doc-same-key1-n2-d5", "doc", 2, 5, "key1 same", o, nil, "", 0),
				e1run("map-same-n2-d5", "map", 2, 5, "same", o, nil, "", 0),
				e1run("list-same-n2-d4", "list", 2, 4, "same", o, nil, "live", 0),
				e1runSP("list-skew-n3-d3-tx", "list", 3, 3, "tx", o, 1, 0, "skew"),
				// client ids that differ only in case, or whose byte order differs from their case-folded order: ties between
				// equal clock values are broken by the ids
				e1run("map-mixid-n3-d4", "map", 3, 4, "mixid", o, nil, "", 0),
				e1run("list-mixid-n3-d3", "list", 3, 3, "mixid", o, nil, "live", 0),
				e1run("doc-mixid-key1-n3-d4", "doc", 3, 4, "key1 mixid", o, nil, "", 0),
			}
		} else {
			p.BudgetS = 3300
			p.Runs = []Run{
				e1runSP("map-skew-n3-d5-tx", "map", 3, 5, "tx", o, 1, 600000, "skew"),
				e1runSP("list-skew-n3-d4-tx", "list", 3, 4, "tx", o, 1, 600000, "skew"),
				e1run("counter-bound-n3-d5", "counter", 3, 5, "wrap rich", o, nil, "bound", 0),
				e1run("map-tomb-n3-d9", "map", 3, 9, "", o, nil, "tomb", 600000),
				e1run("list-tomb-n3-d4", "list", 3, 4, "mid", o, nil, "tomb", 600000),
				e1run("counter-n3-d7", "counter", 3, 7, "rich", o, nil, "", 600000),
				e1run("counter-n4-d6", "counter", 4, 6, "", o, nil, "", 600000),
				e1run("map-n2-d7", "map", 2, 7, "rich", o, nil, "", 600000),
				e1run("map-n3-d9", "map", 3, 9, "", o, nil, "", 600000),
				e1run("map-n4-d6", "map", 4, 6, "", o, nil, "", 600000),
				e1run("list-n2-d6", "list", 2, 6, "batch", o, nil, "", 600000),
				e1run("list-n3-d7", "list", 3, 7, "", o, nil, "", 600000),
				e1run("list-n4-d5", "list", 4, 5, "", o, nil, "", 600000),
				e1run("doc-n2-d5", "doc", 2, 5, "c02", o, nil, "", 600000),
				e1run("doc-n3-d5", "doc", 3, 5, "c02", o, nil, "", 600000),
				e1run("list-skew-n3-d5", "list", 3, 5, "mid", o, nil, "skew", 600000),
				e1run("map-skew-n3-d9", "map", 3, 9, "", o, nil, "skew", 600000),
			}
		}
		return p
	}
	plans["C04"] = func(tier string) Plan {
		p := Plan{ID: "C04", Level: "model_checking",
			Rule: "breadth-first search over insert/delete/update histories (single and batch) on List and Document arrays; after EVERY step on EVERY replica: " +
				"each element whose insert was received and no delete received is visible exactly once (by unique tags), no deleted or unknown element is visible, " +
				"a local insert reads back at its index, the internal total order restricted to earlier elements is unchanged by the step, and all replicas " +
				"agree on the relative order of common elements; non-trivial as in C01",
			Assume: []string{assumeE1, assumeInstr}}
		o := []string{"elements", "converge"}
		if tier == "quick" {
			p.BudgetS = 300
			p.Runs = []Run{
				e1run("list-n2-d4", "list", 2, 4, "batch", o, nil, "", 0),
				e1run("list-live-n2-d4", "list", 2, 4, "batch", o, nil, "live", 0),
				e1run("list-live-n3-d3", "list", 3, 3, "", o, nil, "live", 0),
				e1run("docarr-n2-d5", "doc", 2, 5, "arr", o, nil, "", 0),
				e1run("docarr-live-n2-d4", "doc", 2, 4, "arr", o, nil, "live", 0),
				e1run("list-skew-n3-d4", "list", 3, 4, "mid", o, nil, "skew", 0),
				e1run("docarr-skew-n3-d4", "doc", 3, 4, "arr", o, nil, "skew", 0),
				e1run("docarr-cbatch-live-n2-d3", "doc", 2, 3, "arr cbatch", o, nil, "live", 0),
				e1run("list-tomb-n2-d4", "list", 2, 4, "mid batch", o, nil, "tomb", 0),
				e1run("docarr-tomb-n2-d3", "doc", 2, 3, "arr", o, nil, "tomb", 0),
				e1run("list-live-lean-n2-d5", "list", 2, 5, "lean", o, nil, "live", 0),
				e1run("list-tomb-lean-n3-d4", "list", 3, 4, "lean", o, nil, "tomb", 0),
			}
		} else {
			p.BudgetS = 3300
			p.Runs = []Run{
				e1run("docarr-cbatch-live-n2-d4", "doc", 2, 4, "arr cbatch", o, nil, "live", 600000),
				e1run("list-tomb-n3-d4", "list", 3, 4, "mid", o, nil, "tomb", 600000),
				e1run("docarr-tomb-n2-d4", "doc", 2, 4, "arr", o, nil, "tomb", 600000),
				e1run("list-live-lean-n2-d8", "list", 2, 8, "lean", o, nil, "live", 600000),
				e1run("list-tomb-lean-n3-d6", "list", 3, 6, "lean", o, nil, "tomb", 600000),
				e1run("list-n2-d6", "list", 2, 6, "batch", o, nil, "", 600000),
				e1run("list-n3-d5", "list", 3, 5, "", o, nil, "", 600000),
				e1run("list-n4-d4", "list", 4, 4, "", o, nil, "", 600000),
				e1run("list-deep-n2-d3", "list", 2, 3, "batch", o, nil, "deep-list", 0),
				e1run("docarr-n2-d5", "doc", 2, 5, "arr", o, nil, "", 600000),
				e1run("docarr-n3-d4", "doc", 3, 4, "arr", o, nil, "", 600000),
				e1run("docarr-deep-n2-d3", "doc", 2, 3, "arr", o, nil, "deep-doc", 0),
				e1run("list-skew-n3-d5", "list", 3, 5, "mid", o, nil, "skew", 600000),
				e1run("docarr-skew-n3-d5", "doc", 3, 5, "arr", o, nil, "skew", 600000),
			}
		}
		return p
	}
}

func e1runS(name, typ string, n, depth int, alpha string, oracles []string, maxSkips, maxState int) Run {
	return Run{Name: name, Check: "E1", Depth: depth, MaxState: maxState,
		Params: struct {
			e1p
			MaxSkips int `json:"max_skips"`
		}{e1p{wp: wp{Type: typ, N: n, Alpha: alpha}, Oracles: oracles}, maxSkips}}
}

func e1runSP(name, typ string, n, depth int, alpha string, oracles []string, maxSkips, maxState int, prefix string) Run {
	return Run{Name: name, Check: "E1", Depth: depth, MaxState: maxState,
		Params: struct {
			e1p
			MaxSkips int `json:"max_skips"`
		}{e1p{wp: wp{Type: typ, N: n, Alpha: alpha, Prefix: prefix}, Oracles: oracles}, maxSkips}}
}

func init() {
	plans["C09"] = func(tier string) Plan {
		p := Plan{ID: "C09", Level: "model_checking",
			Rule: "breadth-first search over histories whose alphabet adds Transaction(body) for bodies {c}, {c,c0}, {c,invalid call}, committed or failing after the calls ran, " +
				"and deliveries of the next committed unit truncated to its first m operations or with an over-announced length; oracles: a failing body leaves view, export, " +
				"pending operations and identifiers exactly as before AND every later state equals the state of the twin history without the failed transaction; a committed body " +
				"queues one unit [header(n), n-1 operations] with consecutive seq; an incomplete unit returns an error, does not panic and changes nothing",
			Assume: []string{assumeE1, assumeInstr, "at most max_skips failed transactions / refused units per history (1 quick, 2 thorough)"}}
		o := []string{"tx", "badunit", "converge"}
		if tier == "quick" {
			p.BudgetS = 300
			p.Runs = []Run{
				e1runS("counter-n2-d4", "counter", 2, 4, "tx", o, 1, 0),
				e1runS("map-n2-d4", "map", 2, 4, "tx", o, 1, 0),
				e1runS("list-n2-d3", "list", 2, 3, "tx", o, 1, 0),
				e1runS("doc-n2-d3", "doc", 2, 3, "tx", o, 1, 0),
				e1runSP("doc-live-n2-d2", "doc", 2, 2, "tx", o, 1, 0, "live"),
				e1runS("counter-n2-d3-2fails", "counter", 2, 3, "tx", o, 2, 0), // two failed transactions in one history
				e1runSP("map-live-n2-d3-3fails", "map", 2, 3, "tx", o, 3, 0, "live"),
				e1runSP("map-tomb-n2-d3-2fails", "map", 2, 3, "tx", o, 2, 0, "tomb"),
				e1runSP("counter-bulk-n2-d3", "counter", 2, 3, "tx one", o, 1, 0, "bulk"), // 1022 operations wait to be pushed when the next transaction commits
				e1runSP("list-live-n2-d2-2fails", "list", 2, 2, "tx", o, 2, 0, "live"),
				e1runSP("list-live-n2-d3", "list", 2, 3, "tx", o, 1, 0, "live"),
				e1runSP("map-live-n2-d3", "map", 2, 3, "tx", o, 1, 0, "live"),
			}
		} else {
			p.BudgetS = 3300
			p.Runs = []Run{
				e1runSP("doc-live-n2-d4", "doc", 2, 4, "tx", o, 2, 600000, "live"),
				e1runSP("list-live-n2-d4", "list", 2, 4, "tx batch", o, 2, 600000, "live"),
				e1runSP("map-live-n3-d4", "map", 3, 4, "tx", o, 2, 600000, "live"),
				e1runS("counter-n2-d6", "counter", 2, 6, "tx", o, 2, 600000),
				e1runS("map-n2-d5", "map", 2, 5, "tx rich", o, 2, 600000),
				e1runS("list-n2-d4", "list", 2, 4, "tx batch", o, 2, 600000),
				e1runS("doc-n2-d4", "doc", 2, 4, "tx", o, 2, 600000),
			}
		}
		return p
	}
	plans["C10"] = func(tier string) Plan {
		p := Plan{ID: "C10", Level: "model_checking",
			Rule: "breadth-first search over multi-replica histories with the extra action restore(i): replica i is replaced by a fresh instance that imported its exported meta+snapshot; " +
				"at the restore: equal reads and equal re-export; at EVERY later state of every continuation: the whole world (views, exports, newly emitted operations, log) equals the twin " +
				"history without the restore; at the closure of every state: server copy restored from its snapshot at every log position v + operations after v equals the whole-log replay",
			Assume: []string{assumeE1, assumeInstr, "restore(i) is offered when replica i has nothing pending (the buffer is not part of the snapshot)"}}
		o := []string{"restore", "snapresume", "converge"}
		if tier == "quick" {
			p.BudgetS = 300
			p.Runs = []Run{
				e1runS("counter-n2-d4", "counter", 2, 4, "", o, 1, 0),
				e1runS("map-n2-d5", "map", 2, 5, "", o, 1, 0),
				e1runS("list-n2-d4", "list", 2, 4, "batch", o, 1, 0),
				e1runS("doc-n2-d4", "doc", 2, 4, "", o, 1, 0),
				e1runSP("list-live-n2-d4", "list", 2, 4, "", o, 1, 0, "live"),
				e1runSP("docarr-live-n2-d4", "doc", 2, 4, "arr", o, 1, 0, "live"),
				e1runSP("map-live-n2-d4", "map", 2, 4, "", o, 1, 0, "live"),
				e1runSP("list-tomb-n2-d3", "list", 2, 3, "mid", o, 1, 0, "tomb"),
				e1runSP("doc-tomb-n2-d3", "doc", 2, 3, "", o, 1, 0, "tomb"),
				e1runSP("doc-reburied-n2-d3", "doc", 2, 3, "", o, 1, 0, "reburied"), // two tombstones buried by the same winner, then export / import
				e1runSP("map-tomb-n2-d4", "map", 2, 4, "", o, 1, 0, "tomb"),
				e1runSP("doc-deep21-n2-d2", "doc", 2, 2, "arr", o, 1, 0, "deep-doc21"), // identifiers (2,10..11) next to (21,0): import must keep them apart
				e1runSP("list-deep21-n2-d2", "list", 2, 2, "", o, 1, 0, "deep-list21"),
				e1runSP("list-live-n2-d3-2restores", "list", 2, 3, "", o, 2, 0, "live"), // a restored replica is exported and restored again
				e1runSP("doc-live-n2-d2-2restores", "doc", 2, 2, "", o, 2, 0, "live"),
				e1runS("counter-n2-d4-3restores", "counter", 2, 4, "", o, 3, 0),
				e1runSP("counter-bound-n2-d4", "counter", 2, 4, "wrap rich", o, 1, 0, "bound"), // a counter at the edge of its range: what the snapshot holds must be all there is
				e1runS("doc-emptykey-n2-d4", "doc", 2, 4, "key1 emptykey", o, 1, 0),            // a member whose name is the empty string, live and deleted
				e1runSP("map-live-n2-d4-2restores", "map", 2, 4, "", o, 2, 0, "live"),          // two replicas restored from equal snapshots, then one of them removes
				// a restored replica runs a failing transaction: its rollback is a second import, of what it exported itself
				e1runSP("map-live-n2-d3-tx-restore", "map", 2, 3, "tx", append([]string{"tx"}, o...), 2, 0, "live"),
				e1runSP("list-live-n2-d2-tx-restore", "list", 2, 2, "tx", append([]string{"tx"}, o...), 2, 0, "live"),
				e1runSP("doc-live-n2-d2-tx-restore", "doc", 2, 2, "tx", append([]string{"tx"}, o...), 2, 0, "live"),
				e1runS("counter-n2-d3-tx-restore", "counter", 2, 3, "tx", append([]string{"tx"}, o...), 2, 0),
			}
		} else {
			p.BudgetS = 3300
			p.Runs = []Run{
				e1runSP("list-live-n2-d5", "list", 2, 5, "mid", o, 1, 600000, "live"),
				e1runSP("docarr-live-n2-d5", "doc", 2, 5, "arr", o, 1, 600000, "live"),
				e1runSP("list-skew-n3-d4", "list", 3, 4, "mid", o, 1, 600000, "skew"),
				e1runS("counter-n2-d6", "counter", 2, 6, "", o, 1, 600000),
				e1runS("map-n2-d6", "map", 2, 6, "rich", o, 1, 600000),
				e1runS("list-n2-d6", "list", 2, 6, "batch", o, 1, 600000),
				e1runS("list-n3-d4", "list", 3, 4, "", o, 1, 600000),
				e1runS("doc-n2-d5", "doc", 2, 5, "", o, 1, 600000),
				e1runS("doc-rich-n2-d4", "doc", 2, 4, "rich", o, 1, 600000),
				e1runSP("map-live-n2-d4-tx-restore", "map", 2, 4, "tx", append([]string{"tx"}, o...), 2, 600000, "live"),
				e1runSP("list-live-n2-d3-tx-restore", "list", 2, 3, "tx", append([]string{"tx"}, o...), 2, 600000, "live"),
				e1runSP("doc-live-n2-d3-tx-restore", "doc", 2, 3, "tx", append([]string{"tx"}, o...), 2, 600000, "live"),
				e1runS("counter-n2-d5-tx-restore", "counter", 2, 5, "tx", append([]string{"tx"}, o...), 2, 600000),
			}
		}
		return p
	}
}

func init() {
	plans["C14"] = func(tier string) Plan {
		deep := tier != "quick"
		return Plan{ID: "C14", Level: "exploration", BudgetS: 600,
			Rule: "every operation kind the public API can produce x every value of a finite grammar of JSON-representable Go values (numeric kinds at their boundaries, strings with " +
				"separators/unicode/control characters, pointers, structs, typed maps and slices, empty containers, nesting); each produced operation must survive model<->typed conversion, " +
				"protobuf, the BSON operation document and the echo service with equal id/type/body, and the stored form applied to a replica in the origin's prior state must give the " +
				"origin's state; distinct non-trivial = distinct (operation kind, wire body) produced",
			Assume: []string{assumeInstr, "native fuzzing of message bytes (sampling) is outside this family and not claimed"},
			Runs:   []Run{{Name: "grammar", Check: "C14", Kind: "enum-c14", Params: map[string]bool{"deep": deep}, Shards: 16}}}
	}
	plans["C15"] = func(tier string) Plan {
		p := Plan{ID: "C15", Level: "model_checking",
			Rule: "(a) exhaustive grid over (era, lamport, client id, delimiter): identifier key injective, Compare irreflexive/antisymmetric/total/transitive (all pairs and triples of a sub-grid), " +
				"Timestamp and OperationID orders agree, delimiter outside the order; (b) breadth-first search over multi-replica histories with transactions, failing bodies and refused calls: " +
				"own operations numbered 1,2,3.. without gap, lamport strictly increasing, every new operation ordered after everything applied, identifiers of every exported state pairwise " +
				"distinct with pairwise distinct index keys; deep-prefix start states bring clocks to two digits next to a batch of 12",
			Assume: []string{assumeE1, assumeE2, assumeInstr, "identifier magnitudes beyond the grid are not claimed"}}
		o := []string{"ids", "converge"}
		if tier == "quick" {
			p.BudgetS = 300
			p.Runs = []Run{
				{Name: "grid", Check: "C15", Kind: "grid", Params: map[string]int{"max_lamport": 300, "max_delim": 40, "sub": 12}, Shards: 1},
				e1runS("counter-n2-d4", "counter", 2, 4, "tx", o, 1, 0),
				e1runS("map-n2-d4", "map", 2, 4, "tx", o, 1, 0),
				e1runS("list-n2-d3", "list", 2, 3, "tx batch", o, 1, 0),
				e1runS("doc-n2-d3", "doc", 2, 3, "tx", o, 1, 0),
				e1runS("counter-n2-d3-2fails", "counter", 2, 3, "tx", o, 2, 0),
				e1runSP("map-live-n2-d3-3fails", "map", 2, 3, "tx", o, 3, 0, "live"),
				// single refused calls (also as the very first call of a replica that has just subscribed), up to two per history
				e1runS("map-n2-d4-refused-calls", "map", 2, 4, "inv", o, 2, 0),
				e1runS("doc-n2-d3-refused-calls", "doc", 2, 3, "inv", o, 2, 0),
				e1runS("list-n2-d3-refused-calls", "list", 2, 3, "inv", o, 2, 0),
				e1run("list-deep-n2-d2", "list", 2, 2, "batch", o, nil, "deep-list", 0),
				e1run("doc-deep-n2-d2", "doc", 2, 2, "arr", o, nil, "deep-doc", 0),
				e1run("list-skew-n3-d4", "list", 3, 4, "mid", o, nil, "skew", 0),
				e1run("counter-skew-n3-d4", "counter", 3, 4, "", o, nil, "skew", 0),
				e1run("docarr-cbatch-live-n2-d3", "doc", 2, 3, "arr cbatch", o, nil, "live", 0),
				// through the real server: entry modes, work before the first sync, a failed transaction - the server refuses
				// a client whose numbering has a gap ("missing operations"), so nothing converges any more
				e2run("e2-counter-2c-ahead-txfail-d5", e2p{Clients: 2, Type: "counter", Prefix: "ahead", Alpha: "one txfail", Oracles: []string{"converge", "applied", "checkpoint", "log"}}, 5, 0),
			}
		} else {
			p.BudgetS = 3300
			p.Runs = []Run{
				e2run("e2-counter-2c-ahead-txfail-d6", e2p{Clients: 2, Type: "counter", Prefix: "ahead", Alpha: "one txfail", Oracles: []string{"converge", "applied", "checkpoint", "log"}}, 6, 300000),
				e2run("e2-map-2c-entry-txfail-d5", e2p{Clients: 2, Type: "map", Alpha: "txfail", Oracles: []string{"converge", "applied", "checkpoint", "log"}}, 5, 300000),
				{Name: "grid", Check: "C15", Kind: "grid", Params: map[string]int{"max_lamport": 1200, "max_delim": 120, "sub": 40}, Shards: 1},
				e1runS("counter-n3-d5", "counter", 3, 5, "tx", o, 2, 600000),
				e1runS("map-n2-d5", "map", 2, 5, "tx rich", o, 2, 600000),
				e1runS("list-n2-d4", "list", 2, 4, "tx batch", o, 2, 600000),
				e1runS("doc-n2-d4", "doc", 2, 4, "tx", o, 2, 600000),
				e1run("list-deep-n2-d4", "list", 2, 4, "batch", o, nil, "deep-list", 600000),
				e1run("doc-deep-n2-d4", "doc", 2, 4, "arr", o, nil, "deep-doc", 600000),
				e1run("list-skew-n3-d5", "list", 3, 5, "mid", o, nil, "skew", 600000),
				e1run("map-skew-n3-d5", "map", 3, 5, "", o, nil, "skew", 600000),
				e1run("docarr-cbatch-live-n2-d4", "doc", 2, 4, "arr cbatch", o, nil, "live", 600000),
			}
		}
		return p
	}
}

// e2p mirrors w.E2Params.
type e2p struct {
	Clients    int      `json:"clients"`
	Keys       []string `json:"keys,omitempty"`
	Type       string   `json:"type"`
	Modes      []string `json:"modes,omitempty"`
	Alpha      string   `json:"alpha,omitempty"`
	Oracles    []string `json:"oracles"`
	SyncType   string   `json:"sync_type,omitempty"`
	Colls      []string `json:"colls,omitempty"`
	Prefix     string   `json:"prefix,omitempty"`
	Exchange   string   `json:"exchange,omitempty"`
	Faults     []string `json:"faults,omitempty"`
	MaxFault   int      `json:"max_faults,omitempty"`
	Resend     bool     `json:"resend,omitempty"`
	Types      []string `json:"types,omitempty"`
	SyncFaults []string `json:"sync_faults,omitempty"`
	Foreign    bool     `json:"foreign,omitempty"`
	Tolerant   bool     `json:"tolerant,omitempty"`
	Patches    []string `json:"patches,omitempty"`
	Readers    int      `json:"readers,omitempty"`
}

const assumeE2 = "whole system in one testing/synctest bubble per execution: real OrdaService, real server/mongodb over mongo-driver 1.10.1 speaking the wire protocol to the in-memory mongofake, real Notifier over an MQTT stand-in, real SDK clients over an in-process RPC stub (protobuf round trip per message); virtual time; background goroutines drained after every action"

func e2run(name string, p e2p, depth, maxState int) Run {
	return Run{Name: name, Check: "E2", Depth: depth, MaxState: maxState, Params: p}
}

func init() {
	plans["C05"] = func(tier string) Plan {
		p := Plan{ID: "C05", Level: "model_checking",
			Rule: "breadth-first search over all interleavings of {open datatype (create/subscribe/subscribe-or-create), local operation, Sync} of real SDK clients against the real service; " +
				"state = canonical database dump + every client datatype's export, pending operations, checkpoint and handler events; after every action: checkpoints never move backwards; " +
				"at the closure (three fault-free sync rounds) of EVERY state: all subscribed clients equal per key, equal to snapshot.Manager.GetLatestDatatype(), and each client's " +
				"remote-operation handler saw exactly the other clients' logged operations in sseq order; non-trivial = a client has own operations and applied remote ones",
			Assume: []string{assumeE2, assumeInstr}}
		o := []string{"converge", "applied", "checkpoint", "log"}
		if tier == "quick" {
			p.BudgetS = 420
			p.Runs = []Run{
				e2run("counter-2c-entry-d5", e2p{Clients: 2, Type: "counter", Oracles: o}, 5, 0),
				e2run("counter-2c-joined-d5", e2p{Clients: 2, Type: "counter", Prefix: "joined", Oracles: o}, 5, 0),
				e2run("list-2c-joined-d4", e2p{Clients: 2, Type: "list", Prefix: "joined", Oracles: o}, 4, 0),
				e2run("map-3c-joined-d4", e2p{Clients: 3, Type: "map", Prefix: "joined", Oracles: o}, 4, 0),
				e2run("doc-2c-joined-d3", e2p{Clients: 2, Type: "doc", Prefix: "joined", Oracles: o}, 3, 0),
				e2run("list-2c-ahead-d4", e2p{Clients: 2, Type: "list", Prefix: "ahead", Alpha: "mid", Oracles: o}, 4, 0),
				e2run("docarr-2c-ahead-d4", e2p{Clients: 2, Type: "doc", Prefix: "ahead", Alpha: "arr", Oracles: o}, 4, 0),
				e2run("map-3c-ahead-d4", e2p{Clients: 3, Type: "map", Prefix: "ahead", Modes: []string{"soc", "subscribe"}, Oracles: o}, 4, 0),
				e2run("counter-2c-ahead-txfail-d5", e2p{Clients: 2, Type: "counter", Prefix: "ahead", Alpha: "one txfail", Oracles: o}, 5, 0),
				e2run("list-2c-joined-txfail-d4", e2p{Clients: 2, Type: "list", Prefix: "joined", Alpha: "txfail", Oracles: o}, 4, 0),
				e2run("list-2c-long-d3", e2p{Clients: 2, Type: "list", Prefix: "long", Alpha: "mid", Oracles: o}, 3, 0),
				e2run("counter-2c-bulk-transaction-of-1100-pending-d4", e2p{Clients: 2, Type: "counter", Prefix: "bulk1100", Oracles: o}, 4, 0),
				e2run("doc-3c-long-d3", e2p{Clients: 3, Type: "doc", Prefix: "long", Oracles: o}, 3, 0),
			}
		} else {
			p.BudgetS = 3300
			p.Runs = []Run{
				e2run("counter-2c-d7", e2p{Clients: 2, Type: "counter", Oracles: o}, 7, 300000),
				e2run("counter-2c-joined-d7", e2p{Clients: 2, Type: "counter", Prefix: "joined", Oracles: o}, 7, 300000),
				e2run("counter-2c-bulk-transaction-of-1100-pending-d5", e2p{Clients: 2, Type: "counter", Prefix: "bulk1100", Oracles: o}, 5, 300000),
				e2run("map-2c-bulk-transaction-of-1100-pending-d4", e2p{Clients: 2, Type: "map", Prefix: "bulk1100", Oracles: o}, 4, 300000),
				e2run("list-2c-joined-d6", e2p{Clients: 2, Type: "list", Prefix: "joined", Alpha: "batch", Oracles: o}, 6, 300000),
				e2run("map-3c-joined-d5", e2p{Clients: 3, Type: "map", Prefix: "joined", Oracles: o}, 5, 300000),
				e2run("doc-2c-joined-d5", e2p{Clients: 2, Type: "doc", Prefix: "joined", Oracles: o}, 5, 300000),
				e2run("list-3c-joined-d5", e2p{Clients: 3, Type: "list", Prefix: "joined", Oracles: o}, 5, 300000),
				e2run("counter-3c-d6", e2p{Clients: 3, Type: "counter", Modes: []string{"soc"}, Oracles: o}, 6, 300000),
				e2run("map-2c-d6", e2p{Clients: 2, Type: "map", Modes: []string{"soc"}, Oracles: o}, 6, 300000),
				e2run("list-2c-d6", e2p{Clients: 2, Type: "list", Modes: []string{"soc"}, Oracles: o}, 6, 300000),
				e2run("doc-2c-d5", e2p{Clients: 2, Type: "doc", Modes: []string{"soc"}, Oracles: o}, 5, 300000),
				e2run("counter-2c-3keys-joined-d5", e2p{Clients: 2, Type: "counter", Keys: []string{"k1", "k2", "k3"}, Prefix: "joined", Exchange: "pack", Alpha: "one", Oracles: o}, 5, 300000),
				e2run("counter-6c-d6", e2p{Clients: 6, Type: "counter", Modes: []string{"soc"}, Alpha: "one", Oracles: o}, 6, 300000),
				e2run("list-2c-ahead-d6", e2p{Clients: 2, Type: "list", Prefix: "ahead", Alpha: "mid", Oracles: o}, 6, 300000),
				e2run("list-3c-ahead-d5", e2p{Clients: 3, Type: "list", Prefix: "ahead", Alpha: "mid", Oracles: o}, 5, 300000),
				e2run("docarr-2c-ahead-d5", e2p{Clients: 2, Type: "doc", Prefix: "ahead", Alpha: "arr", Oracles: o}, 5, 300000),
				e2run("map-3c-ahead-d5", e2p{Clients: 3, Type: "map", Prefix: "ahead", Oracles: o}, 5, 300000),
			}
		}
		return p
	}
}

func init() {
	plans["C06"] = func(tier string) Plan {
		p := Plan{ID: "C06", Level: "model_checking",
			Rule: "breadth-first search over request histories of 1-3 real clients: pushes of 0..n operations (batch = local operations since the last sync), empty pushes, verbatim re-sending of a client's " +
				"previous request (acknowledged operations pushed again), pushes after others advanced the log, read-only pulls (option bit, no operations) from checkpoint 0 and from the end of the log, which must return exactly the stored suffix; after EVERY request on the database dump: sseq 1..n gapless with _id = duid:sseq, " +
				"n = recorded end of log, per-client seq increasing and contiguous from 1, every acknowledged operation stored exactly as issued, every stored checkpoint within what is stored",
			Assume: []string{assumeE2, assumeInstr}}
		o := []string{"log", "converge"}
		if tier == "quick" {
			p.BudgetS = 420
			p.Runs = []Run{
				e2run("counter-2c-joined-d5", e2p{Clients: 2, Type: "counter", Prefix: "joined", Resend: true, Oracles: o}, 5, 0),
				e2run("list-2c-joined-d4", e2p{Clients: 2, Type: "list", Prefix: "joined", Resend: true, Oracles: o}, 4, 0),
				e2run("counter-1c-d5", e2p{Clients: 1, Type: "counter", Resend: true, Oracles: o}, 5, 0),
				e2run("counter-2c-joined-readers-d4", e2p{Clients: 2, Type: "counter", Prefix: "joined", Readers: 2, Alpha: "one", Oracles: o}, 4, 0),
				e2run("counter-2c-joined-lostresponse-d5", e2p{Clients: 2, Type: "counter", Prefix: "joined", SyncFaults: []string{"drop", "dup"}, MaxFault: 2, Alpha: "one", Oracles: o}, 5, 0),
				e2run("counter-3c-long-d4", e2p{Clients: 3, Type: "counter", Prefix: "long", Resend: true, Alpha: "one", Oracles: o}, 4, 0),
				e2run("list-2c-long-readers-d3", e2p{Clients: 2, Type: "list", Prefix: "long", Readers: 2, Oracles: o}, 3, 0),
				schedRun("requests-one-at-a-time-background-work-any-time-b2", 2, c06Background("counter"), 0),
				schedRun("subscription-next-to-pushes-b2", 2, c06JoinNextToPush("counter"), 0),
			}
		} else {
			p.BudgetS = 3300
			p.Runs = []Run{
				schedRun("requests-one-at-a-time-background-work-any-time-b3", 3, c06Background("counter"), 0),
				schedRun("subscription-next-to-pushes-b3", 3, c06JoinNextToPush("counter"), 0),
				schedRun("subscription-next-to-pushes-list-b2", 2, c06JoinNextToPush("list"), 0),
				schedRun("requests-one-at-a-time-background-work-any-time-list-b2", 2, c06Background("list"), 0),
				e2run("counter-2c-joined-d7", e2p{Clients: 2, Type: "counter", Prefix: "joined", Resend: true, Oracles: o}, 7, 300000),
				e2run("counter-3c-joined-d6", e2p{Clients: 3, Type: "counter", Prefix: "joined", Resend: true, Oracles: o}, 6, 300000),
				e2run("list-2c-joined-d6", e2p{Clients: 2, Type: "list", Prefix: "joined", Resend: true, Oracles: o}, 6, 300000),
				e2run("map-2c-entry-d6", e2p{Clients: 2, Type: "map", Resend: true, Oracles: o}, 6, 300000),
				e2run("counter-2c-joined-readers-d6", e2p{Clients: 2, Type: "counter", Prefix: "joined", Readers: 2, Alpha: "one", Oracles: o}, 6, 300000),
				e2run("list-2c-joined-readers-d5", e2p{Clients: 2, Type: "list", Prefix: "joined", Readers: 2, Oracles: o}, 5, 300000),
				e2run("counter-6c-joined-d4", e2p{Clients: 6, Type: "counter", Prefix: "joined", Resend: true, Oracles: o}, 4, 300000),
				e2run("counter-2c-joined-lostresponse-d7", e2p{Clients: 2, Type: "counter", Prefix: "joined", SyncFaults: []string{"drop", "dup"}, MaxFault: 3, Alpha: "one", Oracles: o}, 7, 300000),
				e2run("list-2c-joined-lostresponse-d5", e2p{Clients: 2, Type: "list", Prefix: "joined", SyncFaults: []string{"drop", "dup"}, MaxFault: 2, Oracles: o}, 5, 300000),
			}
		}
		return p
	}
	plans["C07"] = func(tier string) Plan {
		p := Plan{ID: "C07", Level: "fault_enumeration",
			Rule: "breadth-first search over pack-level exchange histories (CreatePushPullPack -> real service -> ApplyPushPullPack) of 2-3 clients with every placement of up to max_faults " +
				"transport faults {response dropped, request delivered twice, response held and applied after later exchanges; a retry is just the next exchange}; at the fault-free closure of EVERY state: " +
				"every issued operation stored exactly once, all replicas and the server rebuild equal, equal to the outcome of applying each logged operation once (C02 reference), and each client's " +
				"applied-remote sequence is exactly the others' logged operations in order; non-trivial = a client has own operations and applied remote ones",
			Assume: []string{assumeE2, assumeInstr, "random fault placement on long histories (sampling) is outside this family and not claimed"}}
		o := []string{"log", "converge", "applied", "issued", "reference"}
		f := []string{"drop", "dup", "late"}
		if tier == "quick" {
			p.BudgetS = 480
			p.Runs = []Run{
				e2run("counter-2c-f1-d5", e2p{Clients: 2, Type: "counter", Prefix: "joined", Exchange: "pack", Faults: f, MaxFault: 1, Alpha: "one", Oracles: o}, 5, 0),
				e2run("list-2c-f1-d4", e2p{Clients: 2, Type: "list", Prefix: "joined", Exchange: "pack", Faults: f, MaxFault: 1, Oracles: o}, 4, 0),
				e2run("counter-2c-entry-f1-d5", e2p{Clients: 2, Type: "counter", Modes: []string{"soc"}, Exchange: "pack", Faults: []string{"drop", "dup"}, MaxFault: 1, Alpha: "one", Oracles: o}, 5, 0),
				e2run("counter-2c-entry-cs-f1-d5", e2p{Clients: 2, Type: "counter", Modes: []string{"create", "subscribe"}, Exchange: "pack", Faults: []string{"drop", "dup"}, MaxFault: 1, Alpha: "one", Oracles: o}, 5, 0),
				e2run("doc-2c-f1-d3", e2p{Clients: 2, Type: "doc", Prefix: "joined", Exchange: "pack", Faults: f, MaxFault: 1, Oracles: o[:4]}, 3, 0),
				e2run("map-2c-entry-f1-d4", e2p{Clients: 2, Type: "map", Modes: []string{"soc"}, Exchange: "pack", Faults: f, MaxFault: 1, Oracles: o}, 4, 0),
				// the answer to a subscription is held back, the subscription is made again, and the first answer arrives late
				e2run("counter-2c-created-entry-late-d6", e2p{Clients: 2, Type: "counter", Prefix: "created", Modes: []string{"subscribe", "soc"}, Exchange: "pack", Faults: []string{"late"}, MaxFault: 1, Alpha: "one", Oracles: o}, 6, 0),
				// a copy of an earlier request (also of the subscription request) reaches the server later, after other requests, and its answer reaches the client
				e2run("counter-2c-created-entry-again-d6", e2p{Clients: 2, Type: "counter", Prefix: "created", Modes: []string{"subscribe"}, Exchange: "pack", Faults: []string{"again"}, MaxFault: 1, Alpha: "one", Oracles: o}, 6, 0),
				e2run("counter-2c-joined-again-d5", e2p{Clients: 2, Type: "counter", Prefix: "joined", Exchange: "pack", Faults: []string{"again"}, MaxFault: 1, Alpha: "one", Oracles: o}, 5, 0),
			}
		} else {
			p.BudgetS = 3300
			p.Runs = []Run{
				e2run("counter-2c-f2-d7", e2p{Clients: 2, Type: "counter", Prefix: "joined", Exchange: "pack", Faults: f, MaxFault: 2, Alpha: "one", Oracles: o}, 7, 300000),
				e2run("list-2c-f2-d6", e2p{Clients: 2, Type: "list", Prefix: "joined", Exchange: "pack", Faults: f, MaxFault: 2, Oracles: o}, 6, 300000),
				e2run("counter-3c-f1-d6", e2p{Clients: 3, Type: "counter", Prefix: "joined", Exchange: "pack", Faults: f, MaxFault: 1, Alpha: "one", Oracles: o}, 6, 300000),
				e2run("map-2c-f2-d6", e2p{Clients: 2, Type: "map", Prefix: "joined", Exchange: "pack", Faults: f, MaxFault: 2, Oracles: o}, 6, 300000),
			}
		}
		return p
	}
}

func init() {
	plans["C13"] = func(tier string) Plan {
		p := Plan{ID: "C13", Level: "model_checking",
			Rule: "breadth-first search over histories of {open(key, create|subscribe|subscribe-or-create), local operation, Sync} of 2-3 real clients whose datatype types agree or differ; before every Sync the harness " +
				"predicts from the stored collections whether each pending entry must be refused (create on an existing key, subscribe to a missing key, key of another type); after it: refusals reach the error " +
				"handler, leave the database dump unchanged and the datatype unsubscribed; valid entries end SUBSCRIBED with exactly one state-change report and, for subscribers, a first state equal to the " +
				"replay of log[1..s]; the search continues behind refusals (harmlessness). Racing entries are explored by the schedule search of the same check (see runs named race-*)",
			Assume: []string{assumeE2, assumeInstr}}
		o := []string{"entry", "log", "converge"}
		if tier == "quick" {
			p.BudgetS = 480
			p.Runs = []Run{
				e2run("counter-2c-d6", e2p{Clients: 2, Type: "counter", Oracles: o, Alpha: "one"}, 6, 0),
				e2run("counter-vs-map-2c-d4", e2p{Clients: 2, Type: "counter", Types: []string{"counter", "map"}, Oracles: o, Alpha: "one"}, 4, 0),
				e2run("list-2c-d5", e2p{Clients: 2, Type: "list", Oracles: o}, 5, 0),
			}
		} else {
			p.BudgetS = 3300
			p.Runs = []Run{
				e2run("counter-2c-d9", e2p{Clients: 2, Type: "counter", Oracles: o, Alpha: "one"}, 9, 300000),
				e2run("counter-3c-d6", e2p{Clients: 3, Type: "counter", Oracles: o, Alpha: "one"}, 6, 300000),
				e2run("counter-vs-map-2c-d7", e2p{Clients: 2, Type: "counter", Types: []string{"counter", "map"}, Oracles: o, Alpha: "one"}, 7, 300000),
				e2run("list-vs-doc-2c-d6", e2p{Clients: 2, Type: "list", Types: []string{"list", "doc"}, Oracles: o}, 6, 300000),
				e2run("list-2c-d7", e2p{Clients: 2, Type: "list", Oracles: o}, 7, 300000),
				e2run("counter-2c-2keys-d5", e2p{Clients: 2, Type: "counter", Keys: []string{"k1", "k2"}, Exchange: "pack", Oracles: o, Alpha: "one"}, 5, 300000),
			}
		}
		return p
	}
	plans["C18"] = func(tier string) Plan {
		p := Plan{ID: "C18", Level: "model_checking",
			Rule: "(a) breadth-first search over sync histories (entry modes, batches, re-sent requests): after EVERY request exactly one notification per datatype whose log grew, on topic collection/key with payload " +
				"{pusher id, datatype id, new end of log}, none otherwise; (b) see the realtime schedule-search runs of this check",
			Assume: []string{assumeE2, assumeInstr}}
		o := []string{"notify", "log", "converge"}
		if tier == "quick" {
			p.BudgetS = 480
			p.Runs = []Run{
				e2run("notify-counter-2c-entry-d5", e2p{Clients: 2, Type: "counter", Oracles: o, Resend: true, Alpha: "one"}, 5, 0),
				e2run("notify-list-2c-joined-d4", e2p{Clients: 2, Type: "list", Prefix: "joined", Resend: true, Oracles: o}, 4, 0),
				e2run("notify-counter-2c-2keys-joined-d4", e2p{Clients: 2, Type: "counter", Keys: []string{"k1", "k2"}, Prefix: "joined", Exchange: "pack", Oracles: o, Alpha: "one"}, 4, 0),
			}
		} else {
			p.BudgetS = 3300
			p.Runs = []Run{
				e2run("notify-counter-2c-entry-d7", e2p{Clients: 2, Type: "counter", Oracles: o, Resend: true, Alpha: "one"}, 7, 300000),
				e2run("notify-list-2c-joined-d6", e2p{Clients: 2, Type: "list", Prefix: "joined", Resend: true, Oracles: o}, 6, 300000),
				e2run("notify-counter-3c-2keys-joined-d5", e2p{Clients: 3, Type: "counter", Keys: []string{"k1", "k2"}, Prefix: "joined", Exchange: "pack", Oracles: o, Alpha: "one"}, 5, 300000),
				e2run("notify-doc-2c-joined-d5", e2p{Clients: 2, Type: "doc", Prefix: "joined", Oracles: o}, 5, 300000),
			}
		}
		return p
	}
}

// giveUpScenario: two clients of one key sync at the same moment and one caller may give up in the middle of its call
// (context cancelled while its handler works); afterwards both sync again until quiet.
func giveUpScenario() e2sched {
	inc := func(r int) pact { return pact{Op: "inc", R: r, P: 1, T: "k1|"} }
	return e2sched{E2: e2p{Clients: 2, Type: "counter", Prefix: "joined", Tolerant: true}, Setup: []pact{inc(0), inc(1)},
		Conc: []pact{{Op: "sync", R: 0}, {Op: "sync", R: 1}}, AtEnd: []string{"log", "converge", "applied", "issued", "reference", "snapshots"}, GiveUps: 1}
}

func init() {
	plans["C16"] = func(tier string) Plan {
		p := Plan{ID: "C16", Level: "exploration",
			Rule: "from a base scenario (two clients subscribed to two keys, two unpushed operations) every single mutation of a valid PushPullMessage is sent to the real service: unknown / empty / foreign " +
				"client, collection, datatype id and key, every option-bit combination 0x01..0x7f, checkpoints zero / ahead / swapped / missing, operation lists with gaps, repeats, reordering, foreign " +
				"client ids, stale sequence numbers, wrong operation type, garbage body, changed type and era, no pack, two packs of one key (quick: single mutations plus 11 base mutations combined with every other one; thorough: ALL ordered pairs for the counter, base pairs for list and document); oracle: the call returns " +
				"within 60 virtual seconds, the worker survives (no goroutine of the server stays blocked for ever), a refusal leaves the dump unchanged, the log invariants hold, an SDK client applying the response reports errors through its handler " +
				"without panicking, and afterwards both correct clients continue and converge; distinct non-trivial = distinct (mutation, outcome class); (client-patch-collection-messages) every mutated ClientMessage / PatchMessage / CollectionMessage of a fixed list (unknown, empty, internal and odd collection names and keys, client ids of every shape, every enum value incl. undefined ones, JSON payloads that are not objects, contain nulls, duplicate keys, escapes, deep nesting, internal field names): answered, refusal changes nothing, an accepted request changes only what its kind may change (frame conditions), the correct clients continue and converge; (caller-gives-up run) schedule search in which a caller cancels its context at any decision point while its call is served: the call ends, nothing stays blocked, the next requests for the key are served and everything converges",
			Assume: []string{assumeE2, assumeInstr, assumeSched}}
		if tier == "quick" {
			p.BudgetS = 480
			p.Runs = []Run{{Name: "mutation-base-pairs-counter", Check: "C16", Kind: "mutreq", Cases: true, Params: map[string]interface{}{"type": "counter", "pairs": "base"}, Shards: 16},
				{Name: "mutation-base-pairs-list", Check: "C16", Kind: "mutreq", Cases: true, Params: map[string]interface{}{"type": "list", "pairs": "base"}, Shards: 16},
				{Name: "mutation-base-pairs-doc", Check: "C16", Kind: "mutreq", Cases: true, Params: map[string]interface{}{"type": "doc", "pairs": "base"}, Shards: 16},
				{Name: "mutation-base-pairs-map", Check: "C16", Kind: "mutreq", Cases: true, Params: map[string]interface{}{"type": "map", "pairs": "base"}, Shards: 16},
				schedRun("caller-gives-up-then-next-requests-b1", 1, giveUpScenario(), 0),
				// a real client holds two datatypes and enters them in every way; the server refuses some of the entries
				// (create of an existing key, subscribe to a missing one): the refusal is reported through the error handler,
				// the other datatype of the same Sync is served, the client goes on
				e2run("client-two-datatypes-some-entries-refused-d4", e2p{Clients: 2, Type: "counter", Keys: []string{"k1", "k2"}, Modes: []string{"create", "subscribe"}, Oracles: []string{"entry", "converge", "log"}, Alpha: "one", Tolerant: true}, 4, 0),
				{Name: "client-patch-collection-messages", Check: "C16", Kind: "mutadmin", Cases: true, Params: map[string]interface{}{}, Shards: 16}}
		} else {
			p.BudgetS = 3300
			p.Runs = []Run{
				e2run("client-two-datatypes-some-entries-refused-d6", e2p{Clients: 2, Type: "counter", Keys: []string{"k1", "k2"}, Modes: []string{"create", "subscribe", "soc"}, Oracles: []string{"entry", "converge", "log"}, Alpha: "one", Tolerant: true}, 6, 300000),
				{Name: "mutation-all-pairs-counter", Check: "C16", Kind: "mutreq", Cases: true, Params: map[string]interface{}{"type": "counter", "pairs": "all"}, Shards: 16},
				{Name: "mutation-all-pairs-list", Check: "C16", Kind: "mutreq", Cases: true, Params: map[string]interface{}{"type": "list", "pairs": "all"}, Shards: 16},
				{Name: "mutation-all-pairs-doc", Check: "C16", Kind: "mutreq", Cases: true, Params: map[string]interface{}{"type": "doc", "pairs": "all"}, Shards: 16},
				{Name: "mutation-all-pairs-map", Check: "C16", Kind: "mutreq", Cases: true, Params: map[string]interface{}{"type": "map", "pairs": "all"}, Shards: 16},
				schedRun("caller-gives-up-then-next-requests-b2", 2, giveUpScenario(), 0),
				{Name: "client-patch-collection-messages", Check: "C16", Kind: "mutadmin", Cases: true, Params: map[string]interface{}{}, Shards: 16},
			}
		}
		return p
	}
}

func init() {
	plans["C19"] = func(tier string) Plan {
		p := Plan{ID: "C19", Level: "model_checking",
			Rule: "(client) breadth-first search of depth 2 (thorough 3 = chains) whose actions are PatchByJSON(target) for every target of a generated document set (keys a, b, a/b, ~k; primitive / object / array values, " +
				"depth <= 2): depth 1 builds every source from the empty document, depth 2 covers ALL ordered pairs (source, target); after every patch the value equals the target and the emitted operations form one " +
				"unit; at the closure a second replica that receives the operations reads the same value; (REST) see the rest-* runs: PatchDocument against absent / present documents interleaved with client pushes",
			Assume: []string{assumeE1, assumeE2, assumeInstr, "targets contain no nulls"}}
		if tier == "quick" {
			p.BudgetS = 480
			p.Runs = []Run{{Name: "pairs-small", Check: "C19", Params: wp{Type: "doc", N: 2, Alpha: "small"}, Depth: 2},
				{Name: "two-replicas-patch-and-merge-d3", Check: "C19", Params: wp{Type: "doc", N: 2, Alpha: "merge"}, Depth: 3},
				e2run("rest-doc-2c-d4", e2p{Clients: 2, Type: "doc", Modes: []string{"soc"}, Patches: restTargets, Oracles: []string{"log", "converge", "snapshots"}}, 4, 0),
				schedRun("rest-patch-vs-push-b2", 2, restRace, 0)}
		} else {
			p.BudgetS = 3300
			p.Runs = []Run{
				{Name: "pairs-large", Check: "C19", Params: wp{Type: "doc", N: 2, Alpha: "large"}, Depth: 2},
				{Name: "chains-small", Check: "C19", Params: wp{Type: "doc", N: 2, Alpha: "small"}, Depth: 3, MaxState: 400000},
				{Name: "two-replicas-patch-and-merge-d5", Check: "C19", Params: wp{Type: "doc", N: 2, Alpha: "merge"}, Depth: 5, MaxState: 400000},
				e2run("rest-doc-2c-d5", e2p{Clients: 2, Type: "doc", Modes: []string{"soc"}, Patches: restTargets, Oracles: []string{"log", "converge", "snapshots"}}, 5, 300000),
				e2run("rest-doc-joined-d5", e2p{Clients: 2, Type: "doc", Prefix: "joined", Patches: restTargets, Oracles: []string{"log", "converge", "snapshots"}}, 5, 300000),
				schedRun("rest-patch-vs-push-b3", 3, restRace, 0),
			}
		}
		return p
	}
}

func init() {
	plans["C17"] = func(tier string) Plan {
		p := Plan{ID: "C17", Level: "model_checking",
			Rule: "(client-patch-collection-messages) the request enumeration of C16 with its frame conditions: every mutated ClientMessage / PatchMessage / CollectionMessage (unknown, empty, internal and odd names) leaves every other collection untouched, and collections created afterwards get numbers of their own; (race-* runs) stateless schedule search over simultaneous CreateCollection calls for one new name (and a ResetCollection next to them), followed by two sequential creations: collection numbers pairwise distinct, every stored document belongs to an existing collection; (other runs) breadth-first search over histories of 2-4 real clients spread over 2 (thorough 3) collections that use the SAME keys: open, local operation, Sync, ResetCollection of either collection, and foreign " +
				"requests (a client naming the other collection; a pack carrying the id of the other collection's datatype with option bits 0..3); frame oracle on EVERY transition: the projection of the database " +
				"dump onto every other collection (documents by collection number, user collection by name) is unchanged, collection numbers stay distinct, a reset leaves nothing of its collection, no foreign " +
				"operations are handed out, foreign-collection requests are refused; plus C05/C06 oracles per collection",
			Assume: []string{assumeE2, assumeInstr}}
		o := []string{"isolate", "log", "converge", "applied"}
		// racing administration: the same new collection created twice at once (and next to a reset), then two more
		// collections created one after the other: numbers stay pairwise distinct
		mkrace := func(n int, reset bool) e2sched {
			var conc []pact
			for i := 0; i < n; i++ {
				conc = append(conc, pact{Op: "mkcoll", R: 0, T: "colNew"})
			}
			if reset {
				conc = append(conc, pact{Op: "resetcoll", R: 0, T: "colA"})
			}
			return e2sched{E2: e2p{Clients: 2, Type: "counter", Colls: []string{"colA", "colB"}, Prefix: "joined", Tolerant: true}, Conc: conc,
				AtEnd: []string{"collections"}}
		}
		// a push of a client of colA (and what the server starts after answering it) next to the reset of colA
		pushVsReset := e2sched{E2: e2p{Clients: 2, Type: "counter", Colls: []string{"colA", "colB"}, Prefix: "joined", Tolerant: true},
			Setup: []pact{{Op: "inc", R: 0, P: 1, T: "k1|"}}, Conc: []pact{{Op: "sync", R: 0}, {Op: "resetcoll", R: 0, T: "colA"}},
			AtEnd: []string{"reset-empty:colA"}, NoClose: true}
		p.Assume = append(p.Assume, assumeSched)
		if tier == "quick" {
			p.BudgetS = 480
			p.Runs = []Run{
				schedRun("race-push-vs-reset-b2", 2, pushVsReset, 0),
				schedRun("race-create-collection-2-b3", 3, mkrace(2, false), 0),
				schedRun("race-create-collection-2-reset-b2", 2, mkrace(2, true), 0),
				{Name: "client-patch-collection-messages", Check: "C16", Kind: "mutadmin", Cases: true, Params: map[string]interface{}{}, Shards: 16},
				e2run("counter-2col-2c-joined-d6", e2p{Clients: 2, Type: "counter", Colls: []string{"colA", "colB"}, Prefix: "joined", Foreign: true, Alpha: "one", Oracles: o}, 6, 0),
				e2run("counter-2col-4c-joined-d4", e2p{Clients: 4, Type: "counter", Colls: []string{"colA", "colB"}, Prefix: "joined", Foreign: true, Alpha: "one", Oracles: o}, 4, 0),
				e2run("counter-2col-2c-entry-d5", e2p{Clients: 2, Type: "counter", Colls: []string{"colA", "colB"}, Modes: []string{"soc"}, Foreign: true, Alpha: "one", Oracles: o}, 5, 0),
			}
		} else {
			p.BudgetS = 3300
			p.Runs = []Run{
				{Name: "client-patch-collection-messages", Check: "C16", Kind: "mutadmin", Cases: true, Params: map[string]interface{}{}, Shards: 16},
				schedRun("race-push-vs-reset-b3", 3, pushVsReset, 0),
				schedRun("race-create-collection-2-b4", 4, mkrace(2, false), 0),
				schedRun("race-create-collection-3-b3", 3, mkrace(3, false), 0),
				schedRun("race-create-collection-2-reset-b3", 3, mkrace(2, true), 0),
				e2run("counter-2col-2c-joined-d8", e2p{Clients: 2, Type: "counter", Colls: []string{"colA", "colB"}, Prefix: "joined", Foreign: true, Alpha: "one", Oracles: o}, 8, 300000),
				e2run("counter-2col-4c-joined-d6", e2p{Clients: 4, Type: "counter", Colls: []string{"colA", "colB"}, Prefix: "joined", Foreign: true, Alpha: "one", Oracles: o}, 6, 300000),
				e2run("list-3col-3c-joined-d5", e2p{Clients: 3, Type: "list", Colls: []string{"colA", "colB", "colC"}, Prefix: "joined", Foreign: true, Oracles: o}, 5, 300000),
				e2run("counter-2col-2c-entry-d6", e2p{Clients: 2, Type: "counter", Colls: []string{"colA", "colB"}, Foreign: true, Alpha: "one", Oracles: o}, 6, 300000),
				e2run("doc-2col-2c-2keys-joined-d4", e2p{Clients: 2, Type: "doc", Keys: []string{"k1", "k2"}, Colls: []string{"colA", "colB"}, Prefix: "joined", Exchange: "pack", Foreign: true, Oracles: o}, 4, 300000),
			}
		}
		return p
	}
}

func init() {
	plans["C08"] = func(tier string) Plan {
		p := Plan{ID: "C08", Level: "fault_enumeration",
			Rule: "eight scripted scenarios (two datatypes in every request; a pull of 105 operations; create / subscribe / subscribe-or-create / push / pull-only / concurrent pushes / a transaction / REST patches of an existing and of an absent document next to client syncs - a patch answered with an error is retried after the faults; counter, list, document, map with 3 clients) are first run fault-free to count the K database " +
				"commands they issue (including the background notification + snapshot update); a fault plan is a sequence of faults, each striking the a-th command counted from the previous strike (for a crash: from the restart): " +
				"fail = the command is answered with an error and not executed; crash = executed, reply lost, server dies; crashb = the server dies before executing it (connections closed, in-flight request answered with a " +
				"transport error, a new service + lock registry start over the surviving database while the dead process can reach nothing any more). Enumerated: EVERY single fault (3 kinds x every k in 1..K), EVERY pair of " +
				"kinds (9) x every k x every second offset within the window, and every triple of equal kinds within the triple window; oracle: no hang under virtual time, no worker death, no client panic, the server restarts, " +
				"and after fault-free retries by all clients: log invariants, every acknowledged operation stored, every issued operation stored exactly once, clients = server rebuild = C02 reference of the log, stored snapshots " +
				"and user documents equal the log replay; distinct non-trivial = distinct (scenario, fault kinds, outcome class)",
			Assume: []string{assumeE2, assumeInstr, "a dying server is modelled by the database refusing everything after the fatal command plus a transport error for the in-flight call; goroutines of the dead process keep running but every database command of theirs fails"}}
		if tier == "quick" {
			p.BudgetS = 600
			p.Runs = []Run{{Name: "singles-pairs-w6-triples-w3", Check: "C08", Kind: "dbfault", Cases: true, Params: map[string]interface{}{"win2": 6, "win3": 3}, Shards: 16}}
		} else {
			p.BudgetS = 3300
			p.Runs = []Run{{Name: "singles-pairs-all-triples-w10", Check: "C08", Kind: "dbfault", Cases: true, Params: map[string]interface{}{"win2": 64, "win3": 10}, Shards: 16}}
		}
		return p
	}
}

type e2sched struct {
	E2         e2p      `json:"e2"`
	Setup      []pact   `json:"setup,omitempty"`
	Conc       []pact   `json:"conc"`
	AtPoint    []string `json:"at_point,omitempty"`
	AtEnd      []string `json:"at_end"`
	NoClose    bool     `json:"no_close,omitempty"`
	Policy     *spolicy `json:"policy,omitempty"`
	GiveUps    int      `json:"give_ups,omitempty"`
	RepoPoints bool     `json:"repo_points,omitempty"`
	FailLabel  string   `json:"fail_label,omitempty"`
	FailNth    int      `json:"fail_nth,omitempty"`
}

// spolicy mirrors w.schedPolicy.
type spolicy struct {
	FastNotify bool     `json:"fast_notify,omitempty"`
	SlowRPC    []string `json:"slow_rpc,omitempty"`
	EagerSpawn bool     `json:"eager_spawn,omitempty"`
}

// pact mirrors pt.Action for plans.
type pact struct {
	Op  string `json:"op"`
	R   int    `json:"r"`
	P   int    `json:"p,omitempty"`
	N   int    `json:"n,omitempty"`
	K   string `json:"k,omitempty"`
	V   string `json:"v,omitempty"`
	T   string `json:"t,omitempty"`
	Sub []pact `json:"sub,omitempty"`
}

func schedRun(name string, bound int, args e2sched, maxExec int) Run {
	return Run{Name: name, Check: "SCHED", Kind: "sched", Shards: 16, Depth: bound,
		Params: map[string]interface{}{"scenario": "e2", "bound": bound, "max_exec": maxExec, "args": args}}
}

const assumeSched = "stateless schedule search with replay: gates at every application database command (in the issuing goroutine), at the RPC stub, at MQTT publish/delivery; after releasing one gate the bubble runs to quiescence (synctest.Wait); default = continue the activity that ran last; deviations (preemptions, lock-lease expiry) bounded as reported; code between two gates runs atomically with respect to the other parked activities"

func init() {
	inc := func(r int) pact { return pact{Op: "inc", R: r, P: 1, T: "k1|"} }
	plans["C12"] = func(tier string) Plan {
		p := Plan{ID: "C12", Level: "model_checking",
			Rule: "stateless schedule search over k = 2..3 simultaneous Sync / PatchDocument / ProcessClient calls on the real service: same key, different keys, after completed requests on the same key (cached lock); " +
				"every gate order up to the deviation bound incl. lock-lease expiry; oracle at the end of every schedule: all calls returned (no hang under virtual time), the worker survived, log invariants, " +
				"the answers of all calls together with the stored datatype documents, operations and client documents equal those of one of the k! one-at-a-time executions of the same requests on the real service (reference executions computed once per run; not judged when a lock lease ran out or a caller gave up), exactly-once storage of every issued operation, clients = server rebuild = C02 reference after the closing syncs",
			Assume: []string{assumeE2, assumeSched, assumeInstr}}
		end := []string{"serial", "announced", "log", "converge", "applied", "issued", "reference", "snapshots"}
		same2 := e2sched{E2: e2p{Clients: 2, Type: "counter", Prefix: "joined", Tolerant: true}, Setup: []pact{inc(0), inc(1)}, Conc: []pact{{Op: "sync", R: 0}, {Op: "sync", R: 1}}, AtEnd: end}
		same3 := e2sched{E2: e2p{Clients: 3, Type: "counter", Prefix: "joined", Tolerant: true}, Setup: []pact{inc(0), inc(1), inc(2)}, Conc: []pact{{Op: "sync", R: 0}, {Op: "sync", R: 1}, {Op: "sync", R: 2}}, AtEnd: end}
		same4 := e2sched{E2: e2p{Clients: 4, Type: "counter", Prefix: "joined", Tolerant: true}, Setup: []pact{inc(0), inc(1), inc(2), inc(3)}, Conc: []pact{{Op: "sync", R: 0}, {Op: "sync", R: 1}, {Op: "sync", R: 2}, {Op: "sync", R: 3}}, AtEnd: end}
		diff2 := e2sched{E2: e2p{Clients: 2, Type: "counter", Keys: []string{"k1", "k2"}, Prefix: "joined", Exchange: "pack", Tolerant: true}, Setup: []pact{inc(0), {Op: "inc", R: 1, P: 1, T: "k2|"}}, Conc: []pact{{Op: "sync", R: 0}, {Op: "sync", R: 1}}, AtEnd: end}
		// both clients hold both datatypes and sync them in one message each, naming them in opposite orders (the order of the
		// packs in a message is Go's map order): the handlers of one message must not wait for each other
		crossed2 := diff2
		crossed2.Setup = []pact{inc(0), {Op: "inc", R: 0, P: 1, T: "k2|"}, inc(1), {Op: "inc", R: 1, P: 1, T: "k2|"}}
		crossed2.Conc = []pact{{Op: "sync", R: 0}, {Op: "sync", R: 1, K: "rev"}}
		// different keys with the repository layer's statements as scheduling points: what one request has prepared for its
		// next database command is not touched by another request
		diffRepo := diff2
		diffRepo.RepoPoints = true
		fresh := e2sched{E2: e2p{Clients: 2, Type: "counter", Tolerant: true}, Conc: []pact{{Op: "opensync", R: 0, T: "k1", K: "soc"}, {Op: "opensync", R: 1, T: "k1", K: "soc"}}, AtEnd: append([]string{"onedoc"}, end[1:]...)} // no "serial": the datatype ids are drawn during the concurrent phase and so named by the schedule
		// a caller gives up in the middle of its call (its context is cancelled while the handler works): one such event
		// per execution, at every decision point at which a call is being served
		// the other entry points next to a sync of the same key: a REST patch of an existing document, and the client
		// re-registering (ProcessClient) while it and another client sync
		docput := pact{Op: "dput", R: 0, K: "a", V: "o", T: "k1|"}
		patchSync := e2sched{E2: e2p{Clients: 2, Type: "doc", Prefix: "joined", Tolerant: true}, Setup: []pact{docput, {Op: "sync", R: 0}, {Op: "dput", R: 1, K: "c", V: "p", T: "k1|"}},
			Conc:  []pact{{Op: "patch", R: 0, T: "k1", V: `{"a":{"x":1},"b":[1,2]}`}, {Op: "sync", R: 1}, {Op: "seq", R: 0, Sub: []pact{{Op: "dput", R: 0, K: "d", V: "p", T: "k1|"}, {Op: "sync", R: 0}}}},
			AtEnd: []string{"log", "converge", "snapshots", "nosnapop", "patched"}}
		// two REST patches of one existing document, with different targets: served one at a time, in either order
		twoPatches := e2sched{E2: e2p{Clients: 2, Type: "doc", Prefix: "joined", Tolerant: true}, Setup: []pact{docput, {Op: "sync", R: 0}},
			Conc:  []pact{{Op: "patch", R: 0, T: "k1", V: `{"a":1,"x":1}`}, {Op: "patch", R: 1, T: "k1", V: `{"a":1,"y":2}`}},
			AtEnd: []string{"log", "converge", "snapshots", "nosnapop", "patchserial"}}
		connectSync := e2sched{E2: e2p{Clients: 2, Type: "counter", Prefix: "joined", Tolerant: true}, Setup: []pact{inc(0), inc(1)},
			Conc: []pact{{Op: "connect", R: 0}, {Op: "sync", R: 0}, {Op: "sync", R: 1}}, AtEnd: end}
		giveup2 := same2
		giveup2.GiveUps = 1
		giveupFresh := fresh
		giveupFresh.GiveUps = 1
		if tier == "quick" {
			p.BudgetS = 600
			p.Runs = []Run{{Name: "one-request-held-70-other-keys-served", Check: "C12", Kind: "lockbuckets", Cases: true, Params: map[string]interface{}{}, Shards: 3},
				schedRun("same-key-2-caller-gives-up-b2", 2, giveup2, 0), schedRun("fresh-key-2-caller-gives-up-b2", 2, giveupFresh, 0), schedRun("patch-vs-syncs-b2", 2, patchSync, 0), schedRun("two-patches-of-one-document-b2", 2, twoPatches, 0), schedRun("connect-vs-syncs-b2", 2, connectSync, 0), schedRun("same-key-2-b3", 3, same2, 0), schedRun("different-keys-2-b2", 2, diff2, 0), schedRun("different-keys-2-repository-statements-b1", 1, diffRepo, 0), schedRun("two-keys-crossed-order-b2", 2, crossed2, 0), schedRun("fresh-key-2-b3", 3, fresh, 0), schedRun("same-key-3-b2", 2, same3, 0)}
		} else {
			p.BudgetS = 3400
			p.Runs = []Run{{Name: "one-request-held-70-other-keys-served", Check: "C12", Kind: "lockbuckets", Cases: true, Params: map[string]interface{}{}, Shards: 3},
				schedRun("same-key-2-caller-gives-up-b3", 3, giveup2, 0), schedRun("fresh-key-2-caller-gives-up-b3", 3, giveupFresh, 0), schedRun("patch-vs-syncs-b3", 3, patchSync, 0), schedRun("two-patches-of-one-document-b3", 3, twoPatches, 0), schedRun("connect-vs-syncs-b3", 3, connectSync, 0), schedRun("same-key-2-b4", 4, same2, 0), schedRun("different-keys-2-b3", 3, diff2, 0), schedRun("different-keys-2-repository-statements-b2", 2, diffRepo, 0), schedRun("two-keys-crossed-order-b3", 3, crossed2, 0), schedRun("fresh-key-2-b4", 4, fresh, 0), schedRun("same-key-3-b3", 3, same3, 0), schedRun("same-key-4-b1", 1, same4, 0)}
		}
		return p
	}
}

// c20TwoSyncs: two goroutines use the same real SDK client (with its datatype manager and the whole server behind it):
// each issues an operation and then calls Sync(); another client does the same. When a Sync() returns without an
// error, what its goroutine issued before the call is stored on the server.
func c20TwoSyncs() e2sched {
	return e2sched{E2: e2p{Clients: 2, Type: "counter", Prefix: "joined", Tolerant: true},
		Conc: []pact{
			{Op: "seq", R: 0, Sub: []pact{{Op: "inc", R: 0, P: 10, T: "k1|"}, {Op: "sync", R: 0, V: "10"}}},
			{Op: "seq", R: 0, Sub: []pact{{Op: "inc", R: 0, P: 20, T: "k1|"}, {Op: "sync", R: 0, V: "20"}}},
			{Op: "seq", R: 1, Sub: []pact{{Op: "inc", R: 1, P: 1, T: "k1|"}, {Op: "sync", R: 1}}},
		},
		AtEnd: []string{"log", "converge", "applied", "issued", "reference"}}
}

// c06Background: one caller makes the requests of two clients strictly one after the other; what the server starts
// after each answer (notification, snapshot update) runs whenever the schedule lets it, also during later requests.
// The log invariants are evaluated at every decision point at which no request is being served.
func c06Background(typ string) e2sched {
	return e2sched{E2: e2p{Clients: 2, Type: typ, Prefix: "joined", Tolerant: true},
		Conc: []pact{{Op: "seq", R: 0, Sub: []pact{
			localOp(typ, 0), {Op: "sync", R: 0}, localOp(typ, 1), {Op: "sync", R: 1}, localOp(typ, 0), {Op: "sync", R: 0}, {Op: "sync", R: 1}}}},
		AtPoint: []string{"log"}, AtEnd: []string{"log", "converge", "applied", "issued", "reference"}}
}

// c06JoinNextToPush: one client pushes (twice) while another one, which knows the datatype only by its key, subscribes:
// the two requests name the same datatype in different ways and are still served one at a time.
func c06JoinNextToPush(typ string) e2sched {
	return e2sched{E2: e2p{Clients: 2, Type: typ, Prefix: "created", Tolerant: true},
		Conc: []pact{
			{Op: "seq", R: 0, Sub: []pact{localOp(typ, 0), {Op: "sync", R: 0}, localOp(typ, 0), {Op: "sync", R: 0}}},
			{Op: "seq", R: 1, Sub: []pact{{Op: "opensync", R: 1, T: "k1", K: "soc"}, localOp(typ, 1), {Op: "sync", R: 1}}},
		},
		AtPoint: []string{"log"}, AtEnd: []string{"log", "converge", "applied", "issued", "reference"}}
}

func localOp(typ string, r int) pact {
	switch typ {
	case "counter":
		return pact{Op: "inc", R: r, P: 1, T: "k1|"}
	case "map":
		return pact{Op: "put", R: r, K: "a", V: "p", T: "k1|"}
	case "list":
		return pact{Op: "ins1", R: r, P: 0, V: "p", T: "k1|"}
	}
	return pact{Op: "dput", R: r, K: "a", V: "o", T: "k1|"}
}

func init() {
	plans["C11"] = func(tier string) Plan {
		p := Plan{ID: "C11", Level: "model_checking",
			Rule: "(seq-* runs) breadth-first search over all histories of local operations (puts, removals, nested values, batches) and Syncs of two clients with the background snapshot update run to completion after every request, the snapshot / user-document oracle below evaluated after EVERY request; (other runs) stateless schedule search: two clients push (one of them twice, or a put followed by its removal) on each datatype type; every push spawns the real background activity (notify, then UpdateSnapshot: lock, read latest snapshot, read later " +
				"operations, insert snapshot, replace user document) whose database commands are scheduling points, so the search places every snapshot update at every position relative to the later pushes and to " +
				"the other pending updates, up to the deviation bound; oracle at EVERY decision point: each stored snapshot (duid, v) imported into a fresh datatype equals the replay of log[1..v], each user document " +
				"equals the JSON view of replay(log[1.._orda_ver_]) and its version never decreases; at the end additionally GetLatestDatatype() = replay of the whole log = every client (closing syncs)",
			Assume: []string{assumeE2, assumeSched, assumeInstr}}
		mk := func(typ string) e2sched {
			return e2sched{E2: e2p{Clients: 2, Type: typ, Prefix: "joined", Tolerant: true},
				Conc: []pact{
					{Op: "seq", R: 0, Sub: []pact{localOp(typ, 0), {Op: "sync", R: 0}, localOp(typ, 0), {Op: "sync", R: 0}}},
					{Op: "seq", R: 1, Sub: []pact{localOp(typ, 1), {Op: "sync", R: 1}}},
				},
				AtPoint: []string{"snapshots"}, AtEnd: []string{"snapshots", "log", "converge", "reference"}}
		}
		// sequential part: every push history (puts, removals, nested values, batches) with the background update run
		// to completion after each request; the same snapshot / user-document oracle after EVERY request
		so := []string{"snapshots", "log", "converge"}
		// put-then-remove under the schedule search: client 0 puts and later removes what it put
		mkrm := func(typ string) e2sched {
			put, rem := pact{Op: "put", R: 0, K: "a", V: "p", T: "k1|"}, pact{Op: "rem", R: 0, K: "a", T: "k1|"}
			if typ == "doc" {
				put, rem = pact{Op: "dput", R: 0, K: "a", V: "o", T: "k1|"}, pact{Op: "ddel", R: 0, K: "a", T: "k1|"}
			}
			return e2sched{E2: e2p{Clients: 2, Type: typ, Prefix: "joined", Tolerant: true},
				Conc: []pact{
					{Op: "seq", R: 0, Sub: []pact{put, {Op: "sync", R: 0}, rem, {Op: "sync", R: 0}}},
					{Op: "seq", R: 1, Sub: []pact{localOp(typ, 1), {Op: "sync", R: 1}}},
				},
				AtPoint: []string{"snapshots"}, AtEnd: []string{"snapshots", "log", "converge", "reference"}}
		}
		// a REST patch of the document next to client pushes: whatever writes the user document, it is the view of a log prefix
		restNext := e2sched{E2: e2p{Clients: 2, Type: "doc", Prefix: "joined", Tolerant: true},
			Setup:   []pact{{Op: "dput", R: 0, K: "a", V: "o", T: "k1|"}, {Op: "sync", R: 0}},
			Conc:    []pact{{Op: "patch", R: 0, T: "k1", V: `{"a":{"x":1},"b":[1,2]}`}, {Op: "seq", R: 1, Sub: []pact{{Op: "dput", R: 1, K: "c", V: "p", T: "k1|"}, {Op: "sync", R: 1}}}},
			AtPoint: []string{"snapshots"}, AtEnd: []string{"snapshots", "log", "converge", "patched"}}
		// one write of a background update is refused by the database (the nth insert of a snapshot, the nth replacement
		// of the user document), at every position of the updates relative to each other and to the pushes
		mkf := func(typ, label string, nth int) e2sched {
			a := mk(typ)
			a.FailLabel, a.FailNth = label, nth
			return a
		}
		if tier == "quick" {
			p.BudgetS = 600
			p.Runs = []Run{schedRun("counter-2nd-snapshot-insert-fails-b2", 2, mkf("counter", "insert:-_-Snapshots", 2), 0), schedRun("counter-1st-snapshot-insert-fails-b2", 2, mkf("counter", "insert:-_-Snapshots", 1), 0),
				schedRun("rest-patch-next-to-push-b2", 2, restNext, 0), schedRun("counter-b2", 2, mk("counter"), 0), schedRun("list-b2", 2, mk("list"), 0), schedRun("doc-b1", 1, mk("doc"), 0), schedRun("map-b1", 1, mk("map"), 0),
				schedRun("map-put-remove-b1", 1, mkrm("map"), 0), schedRun("doc-put-remove-b1", 1, mkrm("doc"), 0),
				e2run("seq-map-2c-joined-d4", e2p{Clients: 2, Type: "map", Prefix: "joined", Alpha: "rich", Oracles: so}, 4, 0),
				e2run("seq-doc-2c-joined-d3", e2p{Clients: 2, Type: "doc", Prefix: "joined", Oracles: so}, 3, 0),
				e2run("seq-doc-2c-joined-reserved-member-names-d3", e2p{Clients: 2, Type: "doc", Prefix: "joined", Alpha: "reserved", Oracles: so}, 3, 0),
				e2run("seq-list-2c-joined-d4", e2p{Clients: 2, Type: "list", Prefix: "joined", Alpha: "batch", Oracles: so}, 4, 0),
				e2run("seq-counter-2c-entry-d5", e2p{Clients: 2, Type: "counter", Oracles: so}, 5, 0),
				e2run("seq-counter-2c-log1100-d3", e2p{Clients: 2, Type: "counter", Prefix: "log1100", Modes: []string{"subscribe"}, Alpha: "one", Oracles: so}, 3, 0), // a log of 1100 operations: a late subscriber, then further pushes
			}
		} else {
			p.BudgetS = 3400
			p.Runs = []Run{schedRun("counter-1st-snapshot-insert-fails-b3", 3, mkf("counter", "insert:-_-Snapshots", 1), 0), schedRun("counter-2nd-snapshot-insert-fails-b3", 3, mkf("counter", "insert:-_-Snapshots", 2), 0),
				schedRun("counter-3rd-snapshot-insert-fails-b2", 2, mkf("counter", "insert:-_-Snapshots", 3), 0), schedRun("list-2nd-snapshot-insert-fails-b2", 2, mkf("list", "insert:-_-Snapshots", 2), 0),
				schedRun("counter-2nd-user-document-write-fails-b2", 2, mkf("counter", "update:col", 2), 0),
				schedRun("rest-patch-next-to-push-b3", 3, restNext, 0), schedRun("counter-b3", 3, mk("counter"), 0), schedRun("list-b2", 2, mk("list"), 0), schedRun("doc-b2", 2, mk("doc"), 0), schedRun("map-b2", 2, mk("map"), 0),
				schedRun("map-put-remove-b2", 2, mkrm("map"), 0), schedRun("doc-put-remove-b2", 2, mkrm("doc"), 0),
				e2run("seq-map-2c-joined-d6", e2p{Clients: 2, Type: "map", Prefix: "joined", Alpha: "rich", Oracles: so}, 6, 300000),
				e2run("seq-doc-2c-joined-d5", e2p{Clients: 2, Type: "doc", Prefix: "joined", Oracles: so}, 5, 300000),
				e2run("seq-list-2c-joined-d5", e2p{Clients: 2, Type: "list", Prefix: "joined", Alpha: "batch", Oracles: so}, 5, 300000),
				e2run("seq-counter-2c-entry-d6", e2p{Clients: 2, Type: "counter", Oracles: so}, 6, 300000),
				e2run("seq-doc-3c-ahead-d4", e2p{Clients: 3, Type: "doc", Prefix: "ahead", Alpha: "arr", Oracles: so}, 4, 300000),
			}
		}
		return p
	}
}

func init() {
	// racing entries (C13) and realtime convergence (C18b) are added to the sequential plans of those checks
	c13 := plans["C13"]
	plans["C13"] = func(tier string) Plan {
		p := c13(tier)
		p.Assume = append(p.Assume, assumeSched)
		end := []string{"onedoc", "log", "converge", "applied", "reference"}
		race := func(n int, mode string) e2sched {
			var conc []pact
			for i := 0; i < n; i++ {
				conc = append(conc, pact{Op: "opensync", R: i, T: "k1", K: mode})
			}
			return e2sched{E2: e2p{Clients: n, Type: "counter", Tolerant: true}, Conc: conc, AtEnd: end}
		}
		if tier == "quick" {
			p.Runs = append(p.Runs, schedRun("race-soc-2-b2", 2, race(2, "soc"), 0), schedRun("race-soc-3-b2", 2, race(3, "soc"), 0), schedRun("race-create-2-b2", 2, race(2, "create"), 0))
		} else {
			p.Runs = append(p.Runs, schedRun("race-soc-2-b3", 3, race(2, "soc"), 0), schedRun("race-soc-3-b3", 3, race(3, "soc"), 0), schedRun("race-create-2-b3", 3, race(2, "create"), 0))
		}
		return p
	}
	c18 := plans["C18"]
	plans["C18"] = func(tier string) Plan {
		p := c18(tier)
		p.Assume = append(p.Assume, assumeSched)
		rt := func(n int, typ string, two bool) e2sched {
			var conc []pact
			for i := 0; i < n; i++ {
				if two && i == 0 {
					conc = append(conc, pact{Op: "seq", R: i, Sub: []pact{localOp(typ, i), localOp(typ, i)}})
				} else {
					conc = append(conc, localOp(typ, i))
				}
			}
			return e2sched{E2: e2p{Clients: n, Type: typ, Prefix: "joined", SyncType: "realtime", Tolerant: true}, Conc: conc, AtEnd: []string{"announced", "quiescent", "log", "converge", "reference"}, NoClose: true}
		}
		// two clients push three operations one after the other while a third only listens - over a fast broker and a slow
		// network for the listener (default schedule: notifications are delivered at once, the listener's requests reach
		// the server last and its answers come back last): several notifications are under way within one of its round trips
		rtl := func(typ string) e2sched {
			a := rt(3, typ, false)
			a.Conc = []pact{localOp(typ, 0), localOp(typ, 1), localOp(typ, 0)}
			a.Policy = &spolicy{FastNotify: true, SlowRPC: []string{"c2"}}
			return a
		}
		// one client issues two operations in a row (the second while the push of the first, or what follows it, is under way),
		// the other only listens
		rt2 := func(typ string) e2sched {
			a := rt(2, typ, false)
			a.Conc = []pact{{Op: "seq", R: 0, Sub: []pact{localOp(typ, 0), localOp(typ, 0)}}}
			return a
		}
		rt2e := func(typ string) e2sched {
			a := rt2(typ)
			a.Policy = &spolicy{EagerSpawn: true, FastNotify: true}
			return a
		}
		// one realtime client holds two datatypes and issues an operation on each, one right after the other; the other client
		// holds both and only listens
		rt2k := e2sched{E2: e2p{Clients: 2, Type: "counter", Keys: []string{"k1", "k2"}, Prefix: "joined", SyncType: "realtime", Tolerant: true},
			Conc:  []pact{{Op: "seq", R: 0, Sub: []pact{{Op: "inc", R: 0, P: 1, T: "k1|"}, {Op: "inc", R: 0, P: 1, T: "k2|"}}}},
			AtEnd: []string{"announced", "quiescent", "log", "converge", "reference"}, NoClose: true}
		// a datatype key that contains the separator of the notification topic
		rtSlash := e2sched{E2: e2p{Clients: 2, Type: "counter", Keys: []string{"a/b"}, Prefix: "joined", SyncType: "realtime", Tolerant: true},
			Conc:  []pact{{Op: "inc", R: 0, P: 1, T: "a/b|"}, {Op: "inc", R: 1, P: 1, T: "a/b|"}},
			AtEnd: []string{"announced", "quiescent", "log", "converge", "reference"}, NoClose: true}
		// the application calls Sync() on a realtime client while it issues an operation from another goroutine
		rtSync := e2sched{E2: e2p{Clients: 2, Type: "counter", Prefix: "joined", SyncType: "realtime", Tolerant: true},
			Conc:  []pact{{Op: "sync", R: 0}, {Op: "inc", R: 0, P: 1, T: "k1|"}},
			AtEnd: []string{"announced", "quiescent", "log", "converge", "reference"}, NoClose: true}
		// a second realtime client joins (its first sync) while the first one issues an operation
		rtJoin := e2sched{E2: e2p{Clients: 2, Type: "counter", Prefix: "created", SyncType: "realtime", Tolerant: true},
			Conc:  []pact{{Op: "opensync", R: 1, T: "k1", K: "soc"}, {Op: "inc", R: 0, P: 1, T: "k1|"}},
			AtEnd: []string{"quiescent", "log", "converge", "reference"}, NoClose: true}
		_ = rtJoin
		// a realtime client enters two existing datatypes one right after the other (Subscribe, or SubscribeOrCreate):
		// both become subscribed without any Sync() call, whatever is under way when the second call is made
		rtEnter := func(mode string) e2sched {
			return e2sched{E2: e2p{Clients: 2, Type: "counter", Keys: []string{"k1", "k2"}, Prefix: "created", SyncType: "realtime", Tolerant: true},
				Conc:  []pact{{Op: "seq", R: 1, Sub: []pact{{Op: "openonly", R: 1, T: "k1", K: mode}, {Op: "openonly", R: 1, T: "k2", K: mode}}}},
				AtEnd: []string{"quiescent", "log", "onedoc", "converge"}, NoClose: true}
		}
		// a realtime client issues two operations in a row and then runs a transaction that fails and is rolled back:
		// whatever is under way when the transaction is open, both operations reach the other client without any Sync()
		rtAbort := func(pol *spolicy) e2sched {
			return e2sched{E2: e2p{Clients: 2, Type: "counter", Prefix: "joined", SyncType: "realtime", Tolerant: true},
				Conc:   []pact{{Op: "seq", R: 0, Sub: []pact{{Op: "inc", R: 0, P: 1, T: "k1|"}, {Op: "inc", R: 0, P: 1, T: "k1|"}, {Op: "txabort", R: 0, T: "k1|"}}}},
				Policy: pol,
				AtEnd:  []string{"announced", "quiescent", "log", "converge", "reference"}, NoClose: true}
		}
		if tier == "quick" {
			p.Runs = append(p.Runs, schedRun("realtime-join-next-to-an-operation-b2", 2, rtJoin, 0))
			p.Runs = append(p.Runs, schedRun("realtime-two-subscriptions-in-a-row-b1", 1, rtEnter("subscribe"), 0), schedRun("realtime-two-subscribe-or-creates-in-a-row-b1", 1, rtEnter("soc"), 0))
			p.Runs = append(p.Runs, schedRun("realtime-aborted-transaction-next-to-deliveries-b2", 2, rtAbort(nil), 0),
				schedRun("realtime-aborted-transaction-next-to-deliveries-eager-b2", 2, rtAbort(&spolicy{EagerSpawn: true, FastNotify: true}), 0))
			p.Runs = append(p.Runs, schedRun("realtime-sync-call-next-to-an-operation-b2", 2, rtSync, 0))
			p.Runs = append(p.Runs, schedRun("realtime-two-datatypes-one-client-b1", 1, rt2k, 0), schedRun("realtime-key-with-slash-b1", 1, rtSlash, 0))
			p.Runs = append(p.Runs, schedRun("realtime-counter-2ops-listener-b2", 2, rt2("counter"), 0))
			p.Runs = append(p.Runs, schedRun("realtime-counter-2ops-eager-spawn-b2", 2, rt2e("counter"), 0))
			p.Runs = append(p.Runs, schedRun("realtime-counter-slow-listener-b1", 1, rtl("counter"), 0))
			p.Runs = append(p.Runs, schedRun("realtime-counter-2-b2", 2, rt(2, "counter", false), 0), schedRun("realtime-list-2-b1", 1, rt(2, "list", true), 0))
		} else {
			p.Runs = append(p.Runs, schedRun("realtime-two-datatypes-one-client-b2", 2, rt2k, 0), schedRun("realtime-key-with-slash-b2", 2, rtSlash, 0),
				schedRun("realtime-sync-call-next-to-an-operation-b3", 3, rtSync, 0), schedRun("realtime-join-next-to-an-operation-b2", 2, rtJoin, 0))
			p.Runs = append(p.Runs, schedRun("realtime-two-subscriptions-in-a-row-b2", 2, rtEnter("subscribe"), 0), schedRun("realtime-two-subscribe-or-creates-in-a-row-b2", 2, rtEnter("soc"), 0))
			p.Runs = append(p.Runs, schedRun("realtime-aborted-transaction-next-to-deliveries-b3", 3, rtAbort(nil), 0),
				schedRun("realtime-aborted-transaction-next-to-deliveries-eager-b2", 2, rtAbort(&spolicy{EagerSpawn: true, FastNotify: true}), 0))
			p.Runs = append(p.Runs, schedRun("realtime-counter-slow-listener-b2", 2, rtl("counter"), 0), schedRun("realtime-list-slow-listener-b1", 1, rtl("list"), 0))
			p.Runs = append(p.Runs, schedRun("realtime-list-2-b2", 2, rt(2, "list", true), 0), schedRun("realtime-counter-3-b2", 2, rt(3, "counter", false), 0))
			p.Runs = append(p.Runs, schedRun("realtime-counter-2ops-listener-b2", 2, rt2("counter"), 0), schedRun("realtime-counter-2ops-eager-spawn-b2", 2, rt2e("counter"), 0),
				schedRun("realtime-map-2-b2", 2, rt(2, "map", true), 0), schedRun("realtime-doc-2-b2", 2, rt(2, "doc", true), 0),
				schedRun("realtime-counter-4-b1", 1, rt(4, "counter", false), 0), schedRun("realtime-counter-5-b1", 1, rt(5, "counter", false), 0))
			// last: it takes what is left of the budget (about 1.4e8 transitions at bound 3; reported as not exhaustive when the budget ends it)
			p.Runs = append(p.Runs, schedRun("realtime-counter-2-b3", 3, rt(2, "counter", true), 0))
		}
		return p
	}
}

func init() {
	plans["C20"] = func(tier string) Plan {
		p := Plan{ID: "C20", Level: "model_checking",
			Rule: "stateless schedule search over 2-3 caller goroutines (a plain call, a Transaction of two calls with reads, two plain calls) on ONE real client datatype (counter, list), plus a goroutine applying a remote " +
				"pack and one calling CreatePushPullPack; the *-positional runs use a list / a document array of three elements on which the goroutines delete and insert BY POSITION while the others (and a remote delete) change its length; the sync-* runs add one or two goroutines running the SDK's sync step (CreatePushPullPack -> a harness-played server that accepts per-client sequence order, drops duplicates, refuses gaps and partial transaction units -> ApplyPushPullPack; two of them = a notification-triggered sync overlapping a push-triggered one) next to the callers, and close with sequential syncs: everything issued is in the server log exactly once in order, nothing stays pending, both replicas agree; scheduling points = the four shim gates around the datatype mutexes (before/after Lock and Unlock) and goroutine starts, and in the *-stmt runs additionally every statement of transaction.go and wired.go that touches mutable state of the datatype, and every return statement (points inserted by tools/instr, see instrumentation.stmt_points); all schedules up to the deviation bound; " +
				"oracle: no panic, no deadlock (no progress under virtual time), no lost update, every issued operation queued exactly once in sequence order with increasing lamport, the transaction unit contiguous, " +
				"reads inside the body see only its own effects; positional runs: a call succeeds or is refused, no element is returned by two successful deletes, final content = initial + inserted - deleted; " +
				"supplementary free-running -race pass of the same bodies (sampling; reported separately, not part of the exhaustive counts)",
			Assume: []string{assumeE1, assumeSched, assumeInstr, "preemption inside one statement (between two plain field accesses of the same statement), and between statements outside transaction.go without an intervening synchronization operation, is not enumerated"}}
		mk := func(name string, bound int, a map[string]interface{}) Run {
			return Run{Name: name, Check: "SCHED", Kind: "sched", Shards: 16, Depth: bound, Params: map[string]interface{}{"scenario": "c20", "bound": bound, "args": a}}
		}
		mkd := func(name string, bound int, a map[string]interface{}) Run {
			return Run{Name: name, Check: "SCHED", Kind: "sched", Shards: 16, Depth: bound, Params: map[string]interface{}{"scenario": "c20del", "bound": bound, "args": a}}
		}
		mks := func(name string, bound int, a map[string]interface{}) Run {
			return Run{Name: name, Check: "SCHED", Kind: "sched", Shards: 16, Depth: bound, Params: map[string]interface{}{"scenario": "c20sync", "bound": bound, "max_points": 2000, "args": a}}
		}
		race := func(name string, reps int, a map[string]interface{}) Run {
			return Run{Name: name, Check: "SCHED", Kind: "racefree", Shards: 4, Race: true, Supplementary: true, Params: map[string]interface{}{"scenario": "c20", "reps": reps, "args": a}}
		}
		if tier == "quick" {
			p.BudgetS = 600
			p.Runs = []Run{
				mk("counter-2t-b5", 5, map[string]interface{}{"type": "counter", "threads": 2}),
				mk("counter-3t-remote-pack-b3", 3, map[string]interface{}{"type": "counter", "threads": 3, "remote": true, "packer": true}),
				mk("list-3t-remote-b3", 3, map[string]interface{}{"type": "list", "threads": 3, "remote": true}),
				mk("counter-2t-stmt-b3", 3, map[string]interface{}{"type": "counter", "threads": 2, "stmt": true}),
				mk("list-2t-remote-stmt-b2", 2, map[string]interface{}{"type": "list", "threads": 2, "remote": true, "stmt": true}),
				mk("doc-3t-remote-b3", 3, map[string]interface{}{"type": "doc", "threads": 3, "remote": true}),
				mk("doc-2t-stmt-b2", 2, map[string]interface{}{"type": "doc", "threads": 2, "stmt": true}),
				mk("doc-3t-kept-handle-b3", 3, map[string]interface{}{"type": "doc", "threads": 3, "kept": true}),
				mk("doc-2t-kept-handle-stmt-b2", 2, map[string]interface{}{"type": "doc", "threads": 2, "kept": true, "stmt": true}),
				mkd("list-positional-3t-remote-b3", 3, map[string]interface{}{"type": "list", "threads": 3, "remote": true}),
				mkd("docarr-positional-3t-remote-b3", 3, map[string]interface{}{"type": "docarr", "threads": 3, "remote": true}),
				mkd("list-ranges-3t-remote-b3", 3, map[string]interface{}{"type": "list", "threads": 3, "remote": true, "many": true}),
				mkd("docarr-ranges-3t-remote-b3", 3, map[string]interface{}{"type": "docarr", "threads": 3, "remote": true, "many": true}),
				mks("sync-counter-2u-2s-b3", 3, map[string]interface{}{"type": "counter", "users": 2, "syncs": 2, "pending": 1}),
				mks("sync-counter-2u-1s-stmt-b2", 2, map[string]interface{}{"type": "counter", "users": 2, "syncs": 1, "pending": 1, "stmt": true}),
				mks("sync-list-1u-2s-stmt-b2", 2, map[string]interface{}{"type": "list", "users": 1, "syncs": 2, "pending": 1, "stmt": true}),
				mks("sync-counter-txfail-quiet-2u-1s-b3", 3, map[string]interface{}{"type": "counter", "users": 2, "syncs": 1, "pending": 1, "txfail": true, "quiet": true}),
				mks("sync-list-txfail-2u-2s-b2", 2, map[string]interface{}{"type": "list", "users": 2, "syncs": 2, "pending": 1, "txfail": true}),
				mks("sync-counter-txfail-quiet-2u-1s-stmt-b2", 2, map[string]interface{}{"type": "counter", "users": 2, "syncs": 1, "pending": 1, "txfail": true, "quiet": true, "stmt": true}),
				mks("sync-list-1u-2s-log-grows-between-b2", 2, map[string]interface{}{"type": "list", "users": 1, "syncs": 2, "pending": 1, "grow": true}),
				schedRun("real-client-two-goroutines-call-then-sync-b2", 2, c20TwoSyncs(), 0),
			}
		} else {
			p.BudgetS = 3400
			p.Runs = []Run{
				schedRun("real-client-two-goroutines-call-then-sync-b3", 3, c20TwoSyncs(), 0),
				mks("sync-list-1u-2s-log-grows-between-b3", 3, map[string]interface{}{"type": "list", "users": 1, "syncs": 2, "pending": 1, "grow": true}),
				mks("sync-list-2u-2s-log-grows-between-b2", 2, map[string]interface{}{"type": "list", "users": 2, "syncs": 2, "pending": 1, "grow": true}),
				mk("counter-2t-b5", 5, map[string]interface{}{"type": "counter", "threads": 2}),
				mk("counter-3t-remote-pack-b3", 3, map[string]interface{}{"type": "counter", "threads": 3, "remote": true, "packer": true}),
				mk("list-3t-remote-pack-b3", 3, map[string]interface{}{"type": "list", "threads": 3, "remote": true, "packer": true}),
				mk("counter-2t-stmt-b4", 4, map[string]interface{}{"type": "counter", "threads": 2, "stmt": true}),
				mk("list-2t-stmt-b4", 4, map[string]interface{}{"type": "list", "threads": 2, "stmt": true}),
				mk("counter-3t-remote-pack-stmt-b2", 2, map[string]interface{}{"type": "counter", "threads": 3, "remote": true, "packer": true, "stmt": true}),
				mk("list-3t-remote-stmt-b2", 2, map[string]interface{}{"type": "list", "threads": 3, "remote": true, "stmt": true}),
				mk("doc-3t-remote-pack-b3", 3, map[string]interface{}{"type": "doc", "threads": 3, "remote": true, "packer": true}),
				mk("doc-2t-stmt-b3", 3, map[string]interface{}{"type": "doc", "threads": 2, "stmt": true}),
				mk("doc-3t-kept-handle-b4", 4, map[string]interface{}{"type": "doc", "threads": 3, "kept": true}),
				mk("doc-2t-kept-handle-stmt-b3", 3, map[string]interface{}{"type": "doc", "threads": 2, "kept": true, "stmt": true}),
				mkd("list-positional-3t-remote-pack-b4", 4, map[string]interface{}{"type": "list", "threads": 3, "remote": true, "packer": true}),
				mkd("docarr-positional-3t-remote-pack-b4", 4, map[string]interface{}{"type": "docarr", "threads": 3, "remote": true, "packer": true}),
				mkd("list-positional-3t-remote-stmt-b2", 2, map[string]interface{}{"type": "list", "threads": 3, "remote": true, "stmt": true}),
				mkd("list-ranges-3t-remote-pack-b4", 4, map[string]interface{}{"type": "list", "threads": 3, "remote": true, "packer": true, "many": true}),
				mkd("docarr-ranges-3t-remote-pack-b4", 4, map[string]interface{}{"type": "docarr", "threads": 3, "remote": true, "packer": true, "many": true}),
				mks("sync-counter-3u-2s-b4", 4, map[string]interface{}{"type": "counter", "users": 3, "syncs": 2, "pending": 1}),
				mks("sync-list-3u-2s-b3", 3, map[string]interface{}{"type": "list", "users": 3, "syncs": 2, "pending": 2}),
				mks("sync-counter-2u-2s-stmt-b2", 2, map[string]interface{}{"type": "counter", "users": 2, "syncs": 2, "pending": 1, "stmt": true}),
				mks("sync-list-2u-2s-stmt-b2", 2, map[string]interface{}{"type": "list", "users": 2, "syncs": 2, "pending": 1, "stmt": true}),
				mks("sync-counter-2u-1s-stmt-b3", 3, map[string]interface{}{"type": "counter", "users": 2, "syncs": 1, "pending": 1, "stmt": true}),
				mks("sync-counter-txfail-quiet-2u-2s-b4", 4, map[string]interface{}{"type": "counter", "users": 2, "syncs": 2, "pending": 1, "txfail": true, "quiet": true}),
				mks("sync-list-txfail-quiet-3u-1s-b3", 3, map[string]interface{}{"type": "list", "users": 3, "syncs": 1, "pending": 1, "txfail": true, "quiet": true}),
				mks("sync-list-txfail-2u-2s-b3", 3, map[string]interface{}{"type": "list", "users": 2, "syncs": 2, "pending": 1, "txfail": true}),
				mks("sync-counter-txfail-quiet-2u-1s-stmt-b2", 2, map[string]interface{}{"type": "counter", "users": 2, "syncs": 1, "pending": 1, "txfail": true, "quiet": true, "stmt": true}),
			}
		}
		if tier == "quick" {
			p.Runs = append(p.Runs, race("free-running-race-counter", 50, map[string]interface{}{"type": "counter", "threads": 3, "remote": true, "packer": true}),
				race("free-running-race-list", 50, map[string]interface{}{"type": "list", "threads": 3, "remote": true, "packer": true}))
		} else {
			p.Runs = append(p.Runs, race("free-running-race-counter", 2000, map[string]interface{}{"type": "counter", "threads": 3, "remote": true, "packer": true}),
				race("free-running-race-list", 2000, map[string]interface{}{"type": "list", "threads": 3, "remote": true, "packer": true}))
		}
		return p
	}
}

var restTargets = []string{`{"a":"s"}`, `{"a":{"x":1},"b":[1,2]}`, `{"b":[2]}`}

var restRace = e2sched{E2: e2p{Clients: 2, Type: "doc", Tolerant: true},
	Conc: []pact{
		{Op: "seq", R: 0, Sub: []pact{{Op: "opensync", R: 0, T: "k1", K: "soc"}, {Op: "dput", R: 0, K: "a", V: "o", T: "k1|"}, {Op: "sync", R: 0}}},
		{Op: "patch", R: 1, T: "k1", V: `{"b":[1,2]}`},
	},
	AtPoint: []string{"snapshots"}, AtEnd: []string{"log", "converge", "snapshots", "nosnapop", "patched"}}
