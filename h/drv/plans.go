package main

// wp mirrors w.WParams.
type wp struct {
	Type   string  `json:"type"`
	N      int     `json:"n"`
	Alpha  string  `json:"alpha,omitempty"`
	Orders []int32 `json:"orders,omitempty"`
	Prefix string  `json:"prefix,omitempty"`
	Depth  int     `json:"depth,omitempty"`
}

var plans = map[string]func(tier string) Plan{}

const assumeE1 = "replicas are real orda LOCAL_ONLY clients; the harness plays the server log (total order, per-replica cursor) as DESIGN.md §3.5 describes"
const assumeInstr = "range-over-map order and logging are owned by the build-time overlay rewrite (tools/instr); UIDs are scripted through crypto/rand.Reader"

func init() {
	plans["C03"] = func(tier string) Plan {
		p := Plan{ID: "C03", Level: "model_checking",
			Rule: "breadth-first search over all call sequences (valid and invalid argument classes, transactions) on one replica; " +
				"a state is the canonical export (meta, snapshot, pending operations); non-trivial = at least one user operation queued; " +
				"every call is compared with a plain Go reference (int32 / map / slice / JSON tree with container identities)",
			Assume: []string{assumeE1, assumeInstr, "reference models in h/w/c03.go"}}
		if tier == "quick" {
			p.BudgetS = 240
			p.Runs = []Run{
				{Name: "counter-d4", Check: "C03", Params: wp{Type: "counter", Alpha: "rich"}, Depth: 4},
				{Name: "map-d4", Check: "C03", Params: wp{Type: "map", Alpha: "rich"}, Depth: 4},
				{Name: "list-d3", Check: "C03", Params: wp{Type: "list"}, Depth: 3},
				{Name: "doc-d3", Check: "C03", Params: wp{Type: "doc"}, Depth: 3},
			}
		} else {
			p.BudgetS = 3000
			p.Runs = []Run{
				{Name: "counter-d6", Check: "C03", Params: wp{Type: "counter", Alpha: "rich"}, Depth: 6},
				{Name: "map-d6", Check: "C03", Params: wp{Type: "map", Alpha: "rich"}, Depth: 6},
				{Name: "list-d5", Check: "C03", Params: wp{Type: "list", Alpha: "rich"}, Depth: 5, MaxState: 400000},
				{Name: "doc-d4", Check: "C03", Params: wp{Type: "doc", Alpha: "rich"}, Depth: 4, MaxState: 400000},
			}
		}
		return p
	}
}
