// Package pt holds the types exchanged between the driver (drv) and worker processes (w).
package pt

import "encoding/json"

// Action is one step of a history: an API call on a replica/client, a sync, a request, a fault...
type Action struct {
	Op   string   `json:"op"`
	R    int      `json:"r"`
	P    int      `json:"p,omitempty"`
	N    int      `json:"n,omitempty"`
	K    string   `json:"k,omitempty"`
	V    string   `json:"v,omitempty"`
	T    string   `json:"t,omitempty"`
	Fail bool     `json:"fail,omitempty"`
	Sub  []Action `json:"sub,omitempty"`
}

func (a Action) String() string { b, _ := json.Marshal(a); return string(b) }

// Violation describes one failed oracle.
type Violation struct {
	// Sig is a stable signature of what failed (used to match known findings).
	Sig string `json:"sig"`
	Msg string `json:"msg"`
}

// Succ is one explored transition.
type Succ struct {
	A          Action     `json:"a"`
	Key        string     `json:"key"`
	Nontrivial bool       `json:"nt,omitempty"`
	Outcome    string     `json:"out,omitempty"`
	Terminal   bool       `json:"term,omitempty"`
	Viol       *Violation `json:"viol,omitempty"`
	Evals      int        `json:"ev,omitempty"`
}

// Job is the unit of work handed to a worker process.
type Job struct {
	Check  string          `json:"check"`
	Kind   string          `json:"kind"` // expand | replay | shard | ...
	Params json.RawMessage `json:"params"`
	Items  [][]Action      `json:"items,omitempty"`
	Shard  int             `json:"shard,omitempty"`
	Shards int             `json:"shards,omitempty"`
	Extra  json.RawMessage `json:"extra,omitempty"`
}

// Line is one line of worker output.
type Line struct {
	Start *int            `json:"start,omitempty"` // journal: item index about to be processed
	A     *int            `json:"a,omitempty"`     // journal: successor index about to be executed
	Act   *Action         `json:"act,omitempty"`   // journal: that successor's action
	Viol  *Violation      `json:"viol,omitempty"`  // journal: violation found right before the worker had to exit (hang)
	I     int             `json:"i"`
	Succs []Succ          `json:"succs,omitempty"`
	Done  bool            `json:"done,omitempty"`
	Info  json.RawMessage `json:"info,omitempty"`
	Err   string          `json:"err,omitempty"`
}

// ShardInfo is what a shard job (stateless search, fault or input enumeration) reports.
type ShardInfo struct {
	Evaluations     int             `json:"evaluations"`
	States          int             `json:"states"`
	Transitions     int             `json:"transitions"`
	Nontrivial      []string        `json:"nontrivial"`       // distinct non-trivial case digests
	NontrivialCount int             `json:"nontrivial_count"` // or a measured count when listing is too large
	Outcomes        []string        `json:"outcomes"`
	Samples         []interface{}   `json:"samples"`
	Violations      []ShardViol     `json:"violations"`
	Exhaustive      bool            `json:"exhaustive"`
	Cap             string          `json:"cap"`
	Extra           json.RawMessage `json:"extra,omitempty"`
}

// ShardViol is a violation found by a shard job.
type ShardViol struct {
	Viol  Violation       `json:"viol"`
	Hist  []Action        `json:"hist,omitempty"`
	Extra json.RawMessage `json:"extra,omitempty"`
}

// CaseOut is the result of one case of a case-enumerating shard job (one line per case, so that a
// worker that dies or must exit can be resumed behind the case in flight).
type CaseOut struct {
	Name        string          `json:"name"`
	Outcome     string          `json:"outcome"`
	Transitions int             `json:"transitions"`
	Viol        *Violation      `json:"viol,omitempty"`
	Extra       json.RawMessage `json:"extra,omitempty"`
}
