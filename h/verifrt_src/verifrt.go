// Package verifrt is added virtually (go build -overlay) to the orda client module by
// /verif/tools/instr. It owns the iteration order of every `range` over a map in orda code.
package verifrt

import (
	"sort"
	"sync"
	"sync/atomic"
)

type ordered interface {
	~int | ~int8 | ~int16 | ~int32 | ~int64 | ~uint | ~uint8 | ~uint16 | ~uint32 | ~uint64 | ~uintptr |
		~float32 | ~float64 | ~string
}

// Order modes for MapKeys.
const (
	Sorted   int32 = 0
	Reversed int32 = 1
)

var mode atomic.Int32

var (
	mu    sync.Mutex
	multi = map[string]int{} // site -> number of invocations on maps with >= 2 keys
)

// SetMode selects the key order returned by MapKeys from now on.
func SetMode(m int32) { mode.Store(m) }

// Mode returns the current order mode.
func Mode() int32 { return mode.Load() }

// MultiSites returns, per rewritten range site, how often it iterated a map with >= 2 keys.
func MultiSites() map[string]int {
	mu.Lock()
	defer mu.Unlock()
	r := make(map[string]int, len(multi))
	for k, v := range multi {
		r[k] = v
	}
	return r
}

// ResetSites clears the site statistics.
func ResetSites() {
	mu.Lock()
	multi = map[string]int{}
	mu.Unlock()
}

// MapKeys returns the keys of m in the order chosen by the harness (never Go's random order).
func MapKeys[K ordered, V any](m map[K]V, site string) []K {
	keys := make([]K, 0, len(m))
	for k := range m {
		keys = append(keys, k)
	}
	if len(keys) >= 2 {
		mu.Lock()
		multi[site]++
		mu.Unlock()
	}
	md := mode.Load()
	if h := OrderHook; h != nil {
		if hm, ok := h(site); ok {
			md = hm
		}
	}
	if md == Reversed {
		sort.Slice(keys, func(i, j int) bool { return keys[i] > keys[j] })
	} else {
		sort.Slice(keys, func(i, j int) bool { return keys[i] < keys[j] })
	}
	return keys
}

// OrderHook, if non-nil, may choose the order of one iteration (it runs in the iterating goroutine); the harness uses
// it to give one caller's ranges an order of their own (two clients that name the same datatypes in opposite orders).
var OrderHook func(site string) (int32, bool)

// GoHook, if non-nil, is called at the start of every goroutine spawned by instrumented orda code
// (the schedule explorer parks the new goroutine there).
var GoHook func(site string)

// GoStart is inserted by tools/instr as the first action of spawned goroutines.
func GoStart(site string) {
	if h := GoHook; h != nil {
		h(site)
	}
}

// PointHook, if non-nil, is called before every statement of the files instrumented with
// statement-level scheduling points (tools/instr: stmtPointed). The accesses between two points run
// atomically under the schedule explorer; everything finer is left to the free-running -race pass.
var PointHook func(site string)

// Point is inserted by tools/instr before each statement of statement-pointed files.
func Point(site string) {
	if h := PointHook; h != nil {
		h(site)
	}
}
