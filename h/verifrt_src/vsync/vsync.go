// Package vsync stands in for package sync in client/pkg/internal/datatypes/transaction.go
// (import rewritten by /verif/tools/instr). Its mutex is built on a channel, so that a blocked
// goroutine is durably blocked for testing/synctest, and it passes a harness gate around every
// lock operation. With no hook installed it is a plain mutex.
package vsync

import "sync"

// Hook, if non-nil, is called at every synchronization point: "lock", "locked", "unlock", "unlocked".
var Hook func(point string)

func hook(p string) {
	if h := Hook; h != nil {
		h(p)
	}
}

// RWMutex is a channel based mutex (readers are exclusive too; orda only uses Lock/Unlock).
type RWMutex struct {
	once sync.Once
	ch   chan struct{}
}

func (m *RWMutex) init() { m.once.Do(func() { m.ch = make(chan struct{}, 1) }) }

// Lock acquires the mutex.
func (m *RWMutex) Lock() {
	m.init()
	hook("lock")
	m.ch <- struct{}{}
	hook("locked")
}

// TryLock tries to acquire the mutex.
func (m *RWMutex) TryLock() bool {
	m.init()
	select {
	case m.ch <- struct{}{}:
		return true
	default:
		return false
	}
}

// Unlock releases the mutex; unlocking an unlocked mutex panics (sync makes it a fatal error).
func (m *RWMutex) Unlock() {
	m.init()
	hook("unlock")
	select {
	case <-m.ch:
	default:
		panic("vsync: unlock of unlocked mutex")
	}
	hook("unlocked")
}

// RLock is exclusive in this stand-in.
func (m *RWMutex) RLock() { m.Lock() }

// RUnlock releases RLock.
func (m *RWMutex) RUnlock() { m.Unlock() }

// Mutex has the same implementation.
type Mutex = RWMutex

// Map is sync.Map with a harness gate before every operation.
type Map struct{ m sync.Map }

func (m *Map) Load(k interface{}) (interface{}, bool) { hook("map.Load"); return m.m.Load(k) }
func (m *Map) Store(k, v interface{})                 { hook("map.Store"); m.m.Store(k, v) }
func (m *Map) LoadOrStore(k, v interface{}) (interface{}, bool) {
	hook("map.LoadOrStore")
	return m.m.LoadOrStore(k, v)
}
func (m *Map) LoadAndDelete(k interface{}) (interface{}, bool) {
	hook("map.LoadAndDelete")
	return m.m.LoadAndDelete(k)
}
func (m *Map) Delete(k interface{})                      { hook("map.Delete"); m.m.Delete(k) }
func (m *Map) Range(f func(k, v interface{}) bool)       { m.m.Range(f) }
func (m *Map) Swap(k, v interface{}) (interface{}, bool) { hook("map.Swap"); return m.m.Swap(k, v) }
func (m *Map) CompareAndSwap(k, o, n interface{}) bool {
	hook("map.CompareAndSwap")
	return m.m.CompareAndSwap(k, o, n)
}
func (m *Map) CompareAndDelete(k, o interface{}) bool {
	hook("map.CompareAndDelete")
	return m.m.CompareAndDelete(k, o)
}

// Pass-through aliases so that edits using other sync types still compile.
type (
	WaitGroup = sync.WaitGroup
	Once      = sync.Once
	Pool      = sync.Pool
	Cond      = sync.Cond
	Locker    = sync.Locker
)

// NewCond is sync.NewCond.
func NewCond(l Locker) *Cond { return sync.NewCond(l) }
