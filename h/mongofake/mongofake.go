// Package mongofake is an in-memory MongoDB that speaks OP_QUERY/OP_REPLY (handshake) and OP_MSG
// over net.Pipe, so that the real server/mongodb code and the real mongo-driver run unchanged
// against it inside a testing/synctest bubble. It implements exactly the commands and operators
// the orda server uses, keeps a write log, can dump its contents canonically, and executes fault
// plans (fail the k-th command / die after the k-th command). See DESIGN.md §3.4.
package mongofake

import (
	"context"
	"encoding/binary"
	"errors"
	"fmt"
	"io"
	"net"
	"sort"
	"strings"
	"sync"
	"time"

	"go.mongodb.org/mongo-driver/bson"
	"go.mongodb.org/mongo-driver/bson/primitive"
)

// Write is one entry of the write log.
type Write struct {
	N    int    // command number
	Cmd  string // insert | update | delete | findAndModify | drop
	Coll string
	Doc  bson.D // document after the write (nil for deletes)
	ID   interface{}
}

// Server is the in-memory database.
type Server struct {
	cursors    map[int64][]bson.D // open cursors: what getMore still has to hand out
	nextCursor int64
	mu         sync.Mutex
	colls      map[string][]bson.D // insertion order
	exists     map[string]bool     // collections that exist (even if empty)
	conns      map[net.Conn]bool
	dead       bool
	ncmd       int // application commands executed so far
	Writes     []Write
	CmdLog     []string
	// fault plan
	FailAt  int // fail the k-th application command (1-based; 0 = none)
	CrashAt int // the k-th application command is the last one executed; then the server dies
	// Plan is a sequence of faults, each striking the After-th application command counted from the
	// previous strike (for crashes: from the restart after it); set with SetPlan.
	Plan     []Fault
	planNext int // absolute number of the command the head of Plan strikes (0 = not armed)
	Struck   int // faults of the plan that struck so far
	// FailNth: label ("insert:-_-Snapshots") -> which occurrence of that command, counted from SetFailNth, is answered
	// with an error and not executed (once): a fault addressed by what the command is, whatever the schedule made its number
	FailNth   map[string]int
	seenLabel map[string]int
	// Gate, if non-nil, is called on arrival of every application command (before it executes),
	// outside the server lock; the schedule explorer parks the calling goroutine there.
	Gate func(label string)
	// OnCrash, if non-nil, is called when the server dies.
	OnCrash func()
}

// Fault is one step of a fault plan. Kind: "fail" (the command is answered with an error and not
// executed), "crash" (the command is executed, its reply is lost and the server dies), "crashb"
// (the server dies before executing the command).
type Fault struct {
	Kind  string `json:"kind"`
	After int    `json:"after"`
}

// SetFailNth arms the failure of the nth command with the given label from now on.
func (s *Server) SetFailNth(label string, nth int) {
	s.mu.Lock()
	s.FailNth = map[string]int{label: nth}
	s.seenLabel = map[string]int{}
	s.mu.Unlock()
}

// SetPlan arms a fault plan relative to the commands executed so far.
func (s *Server) SetPlan(plan []Fault) {
	s.mu.Lock()
	s.Plan = append([]Fault(nil), plan...)
	s.armLocked()
	s.mu.Unlock()
}

func (s *Server) armLocked() {
	s.planNext = 0
	if len(s.Plan) > 0 {
		s.planNext = s.ncmd + s.Plan[0].After
	}
}

// New creates an empty server.
func New() *Server {
	return &Server{colls: map[string][]bson.D{}, exists: map[string]bool{}, conns: map[net.Conn]bool{}}
}

// NumCommands returns the number of application commands executed so far.
func (s *Server) NumCommands() int {
	s.mu.Lock()
	defer s.mu.Unlock()
	return s.ncmd
}

// Dead reports whether the server died (crash plan).
func (s *Server) Dead() bool {
	s.mu.Lock()
	defer s.mu.Unlock()
	return s.dead
}

// Restart lets a dead server accept connections again; data survives.
func (s *Server) Restart() {
	s.mu.Lock()
	s.dead = false
	s.CrashAt = 0
	s.FailAt = 0
	s.armLocked()
	s.mu.Unlock()
}

// Dialer implements options.ContextDialer.
type Dialer struct{ S *Server }

// DialContext returns the client side of a pipe served by the fake.
func (d Dialer) DialContext(ctx context.Context, network, address string) (net.Conn, error) {
	s := d.S
	s.mu.Lock()
	if s.dead {
		s.mu.Unlock()
		return nil, errors.New("mongofake: connection refused (server is down)")
	}
	c, sc := net.Pipe()
	s.conns[sc] = true
	s.mu.Unlock()
	go s.serve(sc)
	return c, nil
}

func (s *Server) die() {
	s.mu.Lock()
	s.dead = true
	conns := s.conns
	s.conns = map[net.Conn]bool{}
	cb := s.OnCrash
	s.mu.Unlock()
	for c := range conns {
		c.Close()
	}
	if cb != nil {
		cb()
	}
}

// CloseAll closes all server-side connections (end of an execution).
func (s *Server) CloseAll() {
	s.mu.Lock()
	conns := s.conns
	s.conns = map[net.Conn]bool{}
	s.mu.Unlock()
	for c := range conns {
		c.Close()
	}
}

const (
	opReply = 1
	opQuery = 2004
	opMsg   = 2013
)

func (s *Server) serve(c net.Conn) {
	defer func() {
		c.Close()
		s.mu.Lock()
		delete(s.conns, c)
		s.mu.Unlock()
	}()
	hdr := make([]byte, 16)
	for {
		if _, err := io.ReadFull(c, hdr); err != nil {
			return
		}
		length := int(binary.LittleEndian.Uint32(hdr[0:]))
		reqID := binary.LittleEndian.Uint32(hdr[4:])
		op := binary.LittleEndian.Uint32(hdr[12:])
		if length < 16 || length > 64<<20 {
			return
		}
		body := make([]byte, length-16)
		if _, err := io.ReadFull(c, body); err != nil {
			return
		}
		var reply []byte
		var kill bool
		switch op {
		case opQuery:
			reply = s.handleQuery(reqID, body)
		case opMsg:
			reply, kill = s.handleMsg(reqID, body)
		default:
			return
		}
		if kill {
			s.die()
			return
		}
		if reply == nil {
			return
		}
		if _, err := c.Write(reply); err != nil {
			return
		}
	}
}

func helloDoc() bson.D {
	return bson.D{
		{Key: "ismaster", Value: true},
		{Key: "isWritablePrimary", Value: true},
		{Key: "helloOk", Value: true},
		{Key: "maxBsonObjectSize", Value: int32(16 * 1024 * 1024)},
		{Key: "maxMessageSizeBytes", Value: int32(48000000)},
		{Key: "maxWriteBatchSize", Value: int32(100000)},
		{Key: "localTime", Value: primitive.NewDateTimeFromTime(time.Now())},
		{Key: "logicalSessionTimeoutMinutes", Value: int32(30)},
		{Key: "connectionId", Value: int32(1)},
		{Key: "minWireVersion", Value: int32(0)},
		{Key: "maxWireVersion", Value: int32(13)},
		{Key: "readOnly", Value: false},
		{Key: "ok", Value: float64(1)},
	}
}

func header(length int, responseTo uint32, op uint32) []byte {
	h := make([]byte, 16)
	binary.LittleEndian.PutUint32(h[0:], uint32(length))
	binary.LittleEndian.PutUint32(h[4:], 0)
	binary.LittleEndian.PutUint32(h[8:], responseTo)
	binary.LittleEndian.PutUint32(h[12:], op)
	return h
}

func (s *Server) handleQuery(reqID uint32, body []byte) []byte {
	// flags(4) cstring skip(4) return(4) doc
	doc, _ := bson.Marshal(helloDoc())
	out := header(16+20+len(doc), reqID, opReply)
	tail := make([]byte, 20)
	binary.LittleEndian.PutUint32(tail[0:], 8) // AwaitCapable
	binary.LittleEndian.PutUint32(tail[16:], 1)
	out = append(out, tail...)
	out = append(out, doc...)
	return out
}

func msgReply(reqID uint32, doc bson.D) []byte {
	b, err := bson.Marshal(doc)
	if err != nil {
		b, _ = bson.Marshal(bson.D{{Key: "ok", Value: float64(0)}, {Key: "errmsg", Value: "mongofake: cannot marshal reply: " + err.Error()}, {Key: "code", Value: int32(8000)}})
	}
	out := header(16+4+1+len(b), reqID, opMsg)
	out = append(out, 0, 0, 0, 0, 0)
	out = append(out, b...)
	return out
}

func errDoc(code int32, name, msg string) bson.D {
	return bson.D{{Key: "ok", Value: float64(0)}, {Key: "errmsg", Value: msg}, {Key: "code", Value: code}, {Key: "codeName", Value: name}}
}

func (s *Server) handleMsg(reqID uint32, body []byte) ([]byte, bool) {
	if len(body) < 5 {
		return nil, false
	}
	flags := binary.LittleEndian.Uint32(body)
	rest := body[4:]
	if flags&1 != 0 && len(rest) >= 4 {
		rest = rest[:len(rest)-4] // checksum
	}
	var cmd bson.D
	seqs := map[string][]bson.D{}
	for len(rest) > 0 {
		kind := rest[0]
		rest = rest[1:]
		switch kind {
		case 0:
			if len(rest) < 4 {
				return nil, false
			}
			l := int(binary.LittleEndian.Uint32(rest))
			if l > len(rest) {
				return nil, false
			}
			if err := bson.Unmarshal(rest[:l], &cmd); err != nil {
				return nil, false
			}
			rest = rest[l:]
		case 1:
			if len(rest) < 4 {
				return nil, false
			}
			l := int(binary.LittleEndian.Uint32(rest))
			if l > len(rest) {
				return nil, false
			}
			sec := rest[4:l]
			rest = rest[l:]
			i := 0
			for i < len(sec) && sec[i] != 0 {
				i++
			}
			id := string(sec[:i])
			sec = sec[i+1:]
			for len(sec) > 0 {
				dl := int(binary.LittleEndian.Uint32(sec))
				var d bson.D
				if err := bson.Unmarshal(sec[:dl], &d); err != nil {
					return nil, false
				}
				seqs[id] = append(seqs[id], d)
				sec = sec[dl:]
			}
		default:
			return nil, false
		}
	}
	if len(cmd) == 0 {
		return nil, false
	}
	name := cmd[0].Key
	switch strings.ToLower(name) {
	case "hello", "ismaster":
		return msgReply(reqID, helloDoc()), false
	case "ping", "endsessions", "killcursors", "buildinfo", "committransaction", "aborttransaction":
		return msgReply(reqID, bson.D{{Key: "ok", Value: float64(1)}}), false
	}
	coll, _ := cmd[0].Value.(string)
	if strings.EqualFold(name, "getMore") {
		if c, has := get(cmd, "collection"); has {
			coll, _ = c.(string)
		}
	}
	label := name + ":" + coll
	if g := s.Gate; g != nil {
		g(label)
	}
	s.mu.Lock()
	if s.dead {
		s.mu.Unlock()
		return nil, false
	}
	if s.planNext == s.ncmd+1 && s.Plan[0].Kind == "crashb" {
		s.Plan, s.planNext = s.Plan[1:], 0
		s.Struck++
		s.mu.Unlock()
		return nil, true
	}
	s.ncmd++
	n := s.ncmd
	s.CmdLog = append(s.CmdLog, label)
	if s.planNext == n {
		f := s.Plan[0]
		s.Plan = s.Plan[1:]
		s.Struck++
		if f.Kind == "fail" {
			s.armLocked()
			s.mu.Unlock()
			return msgReply(reqID, errDoc(8000, "AtlasError", fmt.Sprintf("mongofake: injected failure of command %d (%s)", n, label))), false
		}
		s.planNext = 0
		s.exec(n, name, coll, cmd, seqs)
		s.mu.Unlock()
		return nil, true
	}
	if nth := s.FailNth[label]; nth > 0 {
		s.seenLabel[label]++
		if s.seenLabel[label] == nth {
			s.Struck++
			s.mu.Unlock()
			return msgReply(reqID, errDoc(8000, "AtlasError", fmt.Sprintf("mongofake: injected failure of command %d (%s, occurrence %d)", n, label, nth))), false
		}
	}
	if s.FailAt == n {
		s.mu.Unlock()
		return msgReply(reqID, errDoc(8000, "AtlasError", fmt.Sprintf("mongofake: injected failure of command %d (%s)", n, label))), false
	}
	res := s.exec(n, name, coll, cmd, seqs)
	crash := s.CrashAt == n
	s.mu.Unlock()
	if crash {
		return nil, true
	}
	return msgReply(reqID, res), false
}

func get(d bson.D, key string) (interface{}, bool) {
	for _, e := range d {
		if e.Key == key {
			return e.Value, true
		}
	}
	return nil, false
}

func getDoc(d bson.D, key string) bson.D {
	v, _ := get(d, key)
	switch x := v.(type) {
	case bson.D:
		return x
	}
	return nil
}

func getArr(d bson.D, key string) []bson.D {
	v, _ := get(d, key)
	a, _ := v.(bson.A)
	var out []bson.D
	for _, e := range a {
		if dd, ok := e.(bson.D); ok {
			out = append(out, dd)
		}
	}
	return out
}

func truthy(v interface{}) bool {
	switch x := v.(type) {
	case bool:
		return x
	case int32:
		return x != 0
	case int64:
		return x != 0
	case float64:
		return x != 0
	}
	return false
}

func num(v interface{}) (float64, bool) {
	switch x := v.(type) {
	case int32:
		return float64(x), true
	case int64:
		return float64(x), true
	case float64:
		return x, true
	case int:
		return float64(x), true
	}
	return 0, false
}

// typeRank implements MongoDB's type bracketing for comparisons.
func typeRank(v interface{}) int {
	switch v.(type) {
	case nil, primitive.Null:
		return 1
	case int32, int64, float64, int:
		return 2
	case string:
		return 3
	case bson.D:
		return 4
	case bson.A:
		return 5
	case primitive.Binary:
		return 6
	case primitive.ObjectID:
		return 7
	case bool:
		return 8
	case primitive.DateTime:
		return 9
	}
	return 10
}

// compare returns (cmp, comparable within the same bracket).
func compare(a, b interface{}) (int, bool) {
	ra, rb := typeRank(a), typeRank(b)
	if ra != rb {
		if ra < rb {
			return -1, false
		}
		return 1, false
	}
	switch ra {
	case 1:
		return 0, true
	case 2:
		x, _ := num(a)
		y, _ := num(b)
		// exact for int64 pairs
		if ia, ok := a.(int64); ok {
			if ib, ok2 := b.(int64); ok2 {
				switch {
				case ia < ib:
					return -1, true
				case ia > ib:
					return 1, true
				}
				return 0, true
			}
		}
		switch {
		case x < y:
			return -1, true
		case x > y:
			return 1, true
		}
		return 0, true
	case 3:
		return strings.Compare(a.(string), b.(string)), true
	case 7:
		x, y := a.(primitive.ObjectID), b.(primitive.ObjectID)
		return strings.Compare(x.Hex(), y.Hex()), true
	case 8:
		x, y := a.(bool), b.(bool)
		if x == y {
			return 0, true
		}
		if !x {
			return -1, true
		}
		return 1, true
	case 9:
		x, y := a.(primitive.DateTime), b.(primitive.DateTime)
		switch {
		case x < y:
			return -1, true
		case x > y:
			return 1, true
		}
		return 0, true
	}
	ba, _ := bson.Marshal(bson.D{{Key: "v", Value: a}})
	bb, _ := bson.Marshal(bson.D{{Key: "v", Value: b}})
	return strings.Compare(string(ba), string(bb)), true
}

func lookup(d bson.D, path string) (interface{}, bool) {
	parts := strings.Split(path, ".")
	var cur interface{} = d
	for _, p := range parts {
		dd, ok := cur.(bson.D)
		if !ok {
			return nil, false
		}
		v, ok := get(dd, p)
		if !ok {
			return nil, false
		}
		cur = v
	}
	return cur, true
}

func matches(doc bson.D, filter bson.D) bool {
	for _, f := range filter {
		v, present := lookup(doc, f.Key)
		if cond, ok := f.Value.(bson.D); ok && len(cond) > 0 && strings.HasPrefix(cond[0].Key, "$") {
			for _, c := range cond {
				switch c.Key {
				case "$gte", "$gt", "$lte", "$lt", "$eq", "$ne":
					if !present {
						if c.Key == "$ne" {
							continue
						}
						return false
					}
					cmp, same := compare(v, c.Value)
					if !same {
						if c.Key == "$ne" {
							continue
						}
						return false
					}
					ok := map[string]bool{"$gte": cmp >= 0, "$gt": cmp > 0, "$lte": cmp <= 0, "$lt": cmp < 0, "$eq": cmp == 0, "$ne": cmp != 0}[c.Key]
					if !ok {
						return false
					}
				case "$exists":
					if truthy(c.Value) != present {
						return false
					}
				default:
					return false
				}
			}
			continue
		}
		if !present {
			if f.Value == nil {
				continue
			}
			return false
		}
		if cmp, same := compare(v, f.Value); !same || cmp != 0 {
			return false
		}
	}
	return true
}

func cloneD(d bson.D) bson.D {
	b, err := bson.Marshal(d)
	if err != nil {
		return d
	}
	var c bson.D
	bson.Unmarshal(b, &c)
	return c
}

func setField(d bson.D, key string, v interface{}) bson.D {
	if i := strings.IndexByte(key, '.'); i >= 0 {
		head, rest := key[:i], key[i+1:]
		sub := getDoc(d, head)
		sub = setField(sub, rest, v)
		return setField(d, head, sub)
	}
	for i := range d {
		if d[i].Key == key {
			d[i].Value = v
			return d
		}
	}
	return append(d, bson.E{Key: key, Value: v})
}

func equalDocs(a, b bson.D) bool {
	ba, _ := bson.Marshal(a)
	bb, _ := bson.Marshal(b)
	return string(ba) == string(bb)
}

// applyUpdate returns the updated document (u is an operator document or a replacement).
func applyUpdate(old bson.D, u bson.D, isInsert bool) (bson.D, error) {
	if len(u) > 0 && strings.HasPrefix(u[0].Key, "$") {
		nd := cloneD(old)
		for _, opr := range u {
			args, _ := opr.Value.(bson.D)
			switch opr.Key {
			case "$set":
				for _, e := range args {
					nd = setField(nd, e.Key, e.Value)
				}
			case "$setOnInsert":
				if isInsert {
					for _, e := range args {
						nd = setField(nd, e.Key, e.Value)
					}
				}
			case "$inc":
				for _, e := range args {
					cur, ok := lookup(nd, e.Key)
					inc, _ := num(e.Value)
					if !ok {
						nd = setField(nd, e.Key, e.Value)
						continue
					}
					switch c := cur.(type) {
					case int32:
						nd = setField(nd, e.Key, c+int32(inc))
					case int64:
						nd = setField(nd, e.Key, c+int64(inc))
					case float64:
						nd = setField(nd, e.Key, c+inc)
					default:
						return nil, fmt.Errorf("cannot $inc non-numeric field %s", e.Key)
					}
				}
			case "$currentDate":
				for _, e := range args {
					nd = setField(nd, e.Key, primitive.NewDateTimeFromTime(time.Now()))
				}
			case "$unset":
				for _, e := range args {
					for i := range nd {
						if nd[i].Key == e.Key {
							nd = append(nd[:i], nd[i+1:]...)
							break
						}
					}
				}
			default:
				return nil, fmt.Errorf("unsupported update operator %s", opr.Key)
			}
		}
		return nd, nil
	}
	// replacement: keep _id
	nd := bson.D{}
	if id, ok := get(old, "_id"); ok {
		nd = append(nd, bson.E{Key: "_id", Value: id})
	}
	for _, e := range u {
		if e.Key == "_id" {
			continue
		}
		nd = append(nd, e)
	}
	return nd, nil
}

func sortDocs(docs []bson.D, spec bson.D) {
	if len(spec) == 0 {
		return
	}
	sort.SliceStable(docs, func(i, j int) bool {
		for _, s := range spec {
			dir, _ := num(s.Value)
			a, _ := lookup(docs[i], s.Key)
			b, _ := lookup(docs[j], s.Key)
			c, _ := compare(a, b)
			if c == 0 {
				continue
			}
			if dir < 0 {
				return c > 0
			}
			return c < 0
		}
		return false
	})
}

func (s *Server) hasID(coll string, id interface{}) bool {
	for _, d := range s.colls[coll] {
		if v, ok := get(d, "_id"); ok {
			if c, same := compare(v, id); same && c == 0 {
				return true
			}
		}
	}
	return false
}

var oidCounter uint32

func newOID() primitive.ObjectID {
	oidCounter++
	var o primitive.ObjectID
	binary.BigEndian.PutUint32(o[8:], oidCounter)
	return o
}

func (s *Server) logWrite(n int, cmd, coll string, doc bson.D) {
	var id interface{}
	if doc != nil {
		id, _ = get(doc, "_id")
	}
	s.Writes = append(s.Writes, Write{N: n, Cmd: cmd, Coll: coll, Doc: cloneD(doc), ID: id})
}

// exec runs one application command under the server lock.
func (s *Server) exec(n int, name, coll string, cmd bson.D, seqs map[string][]bson.D) bson.D {
	ok := bson.E{Key: "ok", Value: float64(1)}
	switch name {
	case "insert":
		docs := seqs["documents"]
		if docs == nil {
			docs = getArr(cmd, "documents")
		}
		ordered := true
		if v, has := get(cmd, "ordered"); has {
			ordered = truthy(v)
		}
		inserted := 0
		var werrs bson.A
		for i, d := range docs {
			if _, has := get(d, "_id"); !has {
				d = append(bson.D{{Key: "_id", Value: newOID()}}, d...)
			}
			id, _ := get(d, "_id")
			if s.hasID(coll, id) {
				werrs = append(werrs, bson.D{{Key: "index", Value: int32(i)}, {Key: "code", Value: int32(11000)},
					{Key: "errmsg", Value: fmt.Sprintf("E11000 duplicate key error collection: %s index: _id_ dup key: { _id: %v }", coll, id)}})
				if ordered {
					break
				}
				continue
			}
			s.colls[coll] = append(s.colls[coll], cloneD(d))
			s.exists[coll] = true
			s.logWrite(n, "insert", coll, d)
			inserted++
		}
		res := bson.D{{Key: "n", Value: int32(inserted)}}
		if len(werrs) > 0 {
			res = append(res, bson.E{Key: "writeErrors", Value: werrs})
		}
		return append(res, ok)
	case "find":
		filter := getDoc(cmd, "filter")
		var out []bson.D
		for _, d := range s.colls[coll] {
			if matches(d, filter) {
				out = append(out, cloneD(d))
			}
		}
		sortDocs(out, getDoc(cmd, "sort"))
		if v, has := get(cmd, "skip"); has {
			k, _ := num(v)
			if int(k) < len(out) {
				out = out[int(k):]
			} else {
				out = nil
			}
		}
		if v, has := get(cmd, "limit"); has {
			k, _ := num(v)
			if k < 0 {
				k = -k
			}
			if k > 0 && int(k) < len(out) {
				out = out[:int(k)]
			}
		}
		// like MongoDB: the first batch holds at most 101 documents (or batchSize), the rest is fetched with getMore
		bs := 101
		if v, has := get(cmd, "batchSize"); has {
			if k, _ := num(v); k > 0 {
				bs = int(k)
			}
		}
		var cursorID int64
		if v, has := get(cmd, "singleBatch"); !(has && truthy(v)) && len(out) > bs {
			s.nextCursor++
			cursorID = s.nextCursor
			if s.cursors == nil {
				s.cursors = map[int64][]bson.D{}
			}
			s.cursors[cursorID] = out[bs:]
			out = out[:bs]
		}
		batch := bson.A{}
		for _, d := range out {
			batch = append(batch, d)
		}
		db, _ := get(cmd, "$db")
		return bson.D{{Key: "cursor", Value: bson.D{{Key: "firstBatch", Value: batch}, {Key: "id", Value: cursorID}, {Key: "ns", Value: fmt.Sprintf("%v.%s", db, coll)}}}, ok}
	case "getMore":
		id, _ := cmd[0].Value.(int64)
		rest, known := s.cursors[id]
		if !known {
			return errDoc(43, "CursorNotFound", fmt.Sprintf("cursor id %d not found", id))
		}
		n := len(rest)
		if v, has := get(cmd, "batchSize"); has {
			if k, _ := num(v); k > 0 && int(k) < n {
				n = int(k)
			}
		}
		batch := bson.A{}
		for _, d := range rest[:n] {
			batch = append(batch, d)
		}
		next := id
		if n == len(rest) {
			delete(s.cursors, id)
			next = 0
		} else {
			s.cursors[id] = rest[n:]
		}
		db, _ := get(cmd, "$db")
		return bson.D{{Key: "cursor", Value: bson.D{{Key: "nextBatch", Value: batch}, {Key: "id", Value: next}, {Key: "ns", Value: fmt.Sprintf("%v.%s", db, coll)}}}, ok}
	case "update":
		ups := seqs["updates"]
		if ups == nil {
			ups = getArr(cmd, "updates")
		}
		matched, modified := 0, 0
		var upserted bson.A
		for i, u := range ups {
			q := getDoc(u, "q")
			ud := getDoc(u, "u")
			multi := false
			if v, has := get(u, "multi"); has {
				multi = truthy(v)
			}
			upsert := false
			if v, has := get(u, "upsert"); has {
				upsert = truthy(v)
			}
			found := false
			for j, d := range s.colls[coll] {
				if !matches(d, q) {
					continue
				}
				found = true
				matched++
				nd, err := applyUpdate(d, ud, false)
				if err != nil {
					return errDoc(9, "FailedToParse", err.Error())
				}
				if !equalDocs(nd, d) {
					modified++
					s.colls[coll][j] = nd
					s.logWrite(n, "update", coll, nd)
				}
				if !multi {
					break
				}
			}
			if !found && upsert {
				base := bson.D{}
				for _, f := range q {
					if cd, isCond := f.Value.(bson.D); isCond && len(cd) > 0 && strings.HasPrefix(cd[0].Key, "$") {
						continue
					}
					base = setField(base, f.Key, f.Value)
				}
				nd, err := applyUpdate(base, ud, true)
				if err != nil {
					return errDoc(9, "FailedToParse", err.Error())
				}
				if _, has := get(nd, "_id"); !has {
					nd = append(bson.D{{Key: "_id", Value: newOID()}}, nd...)
				}
				id, _ := get(nd, "_id")
				if s.hasID(coll, id) {
					return bson.D{{Key: "n", Value: int32(0)}, {Key: "nModified", Value: int32(0)}, {Key: "writeErrors", Value: bson.A{
						bson.D{{Key: "index", Value: int32(i)}, {Key: "code", Value: int32(11000)}, {Key: "errmsg", Value: "E11000 duplicate key error"}}}}, ok}
				}
				s.colls[coll] = append(s.colls[coll], nd)
				s.exists[coll] = true
				s.logWrite(n, "update", coll, nd)
				upserted = append(upserted, bson.D{{Key: "index", Value: int32(i)}, {Key: "_id", Value: id}})
				matched++
			}
		}
		res := bson.D{{Key: "n", Value: int32(matched)}, {Key: "nModified", Value: int32(modified)}}
		if len(upserted) > 0 {
			res = append(res, bson.E{Key: "upserted", Value: upserted})
		}
		return append(res, ok)
	case "delete":
		dels := seqs["deletes"]
		if dels == nil {
			dels = getArr(cmd, "deletes")
		}
		removed := 0
		for _, dl := range dels {
			q := getDoc(dl, "q")
			limit := 0
			if v, has := get(dl, "limit"); has {
				k, _ := num(v)
				limit = int(k)
			}
			var keep []bson.D
			cnt := 0
			for _, d := range s.colls[coll] {
				if matches(d, q) && (limit == 0 || cnt < limit) {
					cnt++
					s.logWrite(n, "delete", coll, d)
					continue
				}
				keep = append(keep, d)
			}
			s.colls[coll] = keep
			removed += cnt
		}
		return bson.D{{Key: "n", Value: int32(removed)}, ok}
	case "findAndModify":
		q := getDoc(cmd, "query")
		ud := getDoc(cmd, "update")
		upsert := false
		if v, has := get(cmd, "upsert"); has {
			upsert = truthy(v)
		}
		retNew := false
		if v, has := get(cmd, "new"); has {
			retNew = truthy(v)
		}
		for j, d := range s.colls[coll] {
			if !matches(d, q) {
				continue
			}
			nd, err := applyUpdate(d, ud, false)
			if err != nil {
				return errDoc(9, "FailedToParse", err.Error())
			}
			s.colls[coll][j] = nd
			s.logWrite(n, "findAndModify", coll, nd)
			val := d
			if retNew {
				val = nd
			}
			return bson.D{{Key: "lastErrorObject", Value: bson.D{{Key: "n", Value: int32(1)}, {Key: "updatedExisting", Value: true}}}, {Key: "value", Value: cloneD(val)}, ok}
		}
		if upsert {
			base := bson.D{}
			for _, f := range q {
				base = setField(base, f.Key, f.Value)
			}
			nd, err := applyUpdate(base, ud, true)
			if err != nil {
				return errDoc(9, "FailedToParse", err.Error())
			}
			if _, has := get(nd, "_id"); !has {
				nd = append(bson.D{{Key: "_id", Value: newOID()}}, nd...)
			}
			id, _ := get(nd, "_id")
			s.colls[coll] = append(s.colls[coll], nd)
			s.exists[coll] = true
			s.logWrite(n, "findAndModify", coll, nd)
			var val interface{} = primitive.Null{}
			if retNew {
				val = cloneD(nd)
			}
			return bson.D{{Key: "lastErrorObject", Value: bson.D{{Key: "n", Value: int32(1)}, {Key: "updatedExisting", Value: false}, {Key: "upserted", Value: id}}}, {Key: "value", Value: val}, ok}
		}
		return bson.D{{Key: "lastErrorObject", Value: bson.D{{Key: "n", Value: int32(0)}, {Key: "updatedExisting", Value: false}}}, {Key: "value", Value: primitive.Null{}}, ok}
	case "listCollections":
		filter := getDoc(cmd, "filter")
		names := make([]string, 0, len(s.exists))
		for k := range s.exists {
			names = append(names, k)
		}
		sort.Strings(names)
		batch := bson.A{}
		for _, nm := range names {
			info := bson.D{{Key: "name", Value: nm}, {Key: "type", Value: "collection"}}
			if matches(info, filter) {
				batch = append(batch, info)
			}
		}
		db, _ := get(cmd, "$db")
		return bson.D{{Key: "cursor", Value: bson.D{{Key: "firstBatch", Value: batch}, {Key: "id", Value: int64(0)}, {Key: "ns", Value: fmt.Sprintf("%v.$cmd.listCollections", db)}}}, ok}
	case "createIndexes":
		s.exists[coll] = true
		return bson.D{{Key: "createdCollectionAutomatically", Value: false}, {Key: "numIndexesBefore", Value: int32(1)}, {Key: "numIndexesAfter", Value: int32(2)}, ok}
	case "drop":
		if !s.exists[coll] {
			return errDoc(26, "NamespaceNotFound", "ns not found")
		}
		for _, d := range s.colls[coll] {
			s.logWrite(n, "delete", coll, d)
		}
		delete(s.colls, coll)
		delete(s.exists, coll)
		return bson.D{{Key: "nIndexesWas", Value: int32(1)}, {Key: "ns", Value: coll}, ok}
	case "count":
		filter := getDoc(cmd, "query")
		c := 0
		for _, d := range s.colls[coll] {
			if matches(d, filter) {
				c++
			}
		}
		return bson.D{{Key: "n", Value: int32(c)}, ok}
	}
	return errDoc(59, "CommandNotFound", "mongofake: no such command: "+name)
}

// Docs returns a deep copy of the documents of a collection.
func (s *Server) Docs(coll string) []bson.D {
	s.mu.Lock()
	defer s.mu.Unlock()
	var out []bson.D
	for _, d := range s.colls[coll] {
		out = append(out, cloneD(d))
	}
	return out
}

// Collections returns the names of the existing collections, sorted.
func (s *Server) Collections() []string {
	s.mu.Lock()
	defer s.mu.Unlock()
	var names []string
	for k := range s.exists {
		names = append(names, k)
	}
	sort.Strings(names)
	return names
}

// Volatile fields removed by Dump.
var Volatile = map[string]bool{"createdAt": true, "updatedAt": true, "at": true}

func canon(v interface{}) interface{} {
	switch x := v.(type) {
	case bson.D:
		keys := make([]string, 0, len(x))
		m := map[string]interface{}{}
		for _, e := range x {
			if Volatile[e.Key] {
				continue
			}
			keys = append(keys, e.Key)
			m[e.Key] = canon(e.Value)
		}
		sort.Strings(keys)
		out := bson.D{}
		for _, k := range keys {
			out = append(out, bson.E{Key: k, Value: m[k]})
		}
		return out
	case bson.A:
		out := bson.A{}
		for _, e := range x {
			out = append(out, canon(e))
		}
		return out
	case primitive.ObjectID:
		return "oid"
	case primitive.DateTime:
		return "date"
	case primitive.Binary:
		return "bin:" + string(x.Data)
	}
	return v
}

// Dump renders the whole database canonically (volatile fields removed, keys sorted, documents by _id).
func (s *Server) Dump() string {
	s.mu.Lock()
	defer s.mu.Unlock()
	var sb strings.Builder
	names := make([]string, 0, len(s.exists))
	for k := range s.exists {
		names = append(names, k)
	}
	sort.Strings(names)
	for _, nm := range names {
		fmt.Fprintf(&sb, "## %s\n", nm)
		var lines []string
		for _, d := range s.colls[nm] {
			b, _ := bson.MarshalExtJSON(canon(d), false, false)
			lines = append(lines, string(b))
		}
		sort.Strings(lines)
		for _, l := range lines {
			sb.WriteString(l)
			sb.WriteString("\n")
		}
	}
	return sb.String()
}

// DumpColl dumps one collection, optionally filtered.
func (s *Server) DumpColl(coll string, filter bson.D) []string {
	s.mu.Lock()
	defer s.mu.Unlock()
	var lines []string
	for _, d := range s.colls[coll] {
		if filter != nil && !matches(d, filter) {
			continue
		}
		b, _ := bson.MarshalExtJSON(canon(d), false, false)
		lines = append(lines, string(b))
	}
	sort.Strings(lines)
	return lines
}
