package sysx

import (
	"context"
	"encoding/binary"
	"errors"
	"fmt"
	"hash/fnv"
	"net"
	"sort"
	"strings"
	"sync"
	"sync/atomic"
	"time"

	mqtt "github.com/eclipse/paho.mqtt.golang"
	"github.com/orda-io/orda/client/pkg/model"
	"github.com/orda-io/orda/server/service"
	"go.mongodb.org/mongo-driver/bson"
	"google.golang.org/grpc"
	"google.golang.org/protobuf/proto"

	"verif/h/mongofake"
)

// ---------------------------------------------------------------------------------------------
// MQTT stand-in
// ---------------------------------------------------------------------------------------------

// Publish is one recorded publish.
type Publish struct {
	Topic   string
	Payload string
	By      string
}

type subscription struct {
	client *MqttClient
	topic  string
	cb     mqtt.MessageHandler
}

// Delivery is one pending delivery of a publish to a subscriber.
type Delivery struct {
	Seq     int
	Sub     *subscription
	Topic   string
	Payload []byte
}

// Broker records every publish and delivers to subscribers.
type Broker struct {
	mu        sync.Mutex
	Publishes []Publish
	subs      []*subscription
	Pending   []*Delivery // sequential mode: queued until the harness delivers them
	seq       int
	Sched     *Sched
	// Auto: deliver immediately in a goroutine of its own (a gated activity when the scheduler is on).
	Auto bool
}

// NewBroker creates a broker.
func NewBroker(s *Sched) *Broker { return &Broker{Sched: s} }

type token struct{ err error }

func (t *token) Wait() bool                     { return true }
func (t *token) WaitTimeout(time.Duration) bool { return true }
func (t *token) Done() <-chan struct{}          { c := make(chan struct{}); close(c); return c }
func (t *token) Error() error                   { return t.err }

type message struct {
	topic   string
	payload []byte
}

func (m *message) Duplicate() bool   { return false }
func (m *message) Qos() byte         { return 0 }
func (m *message) Retained() bool    { return false }
func (m *message) Topic() string     { return m.topic }
func (m *message) MessageID() uint16 { return 0 }
func (m *message) Payload() []byte   { return m.payload }
func (m *message) Ack()              {}

// MqttClient implements mqtt.Client over a Broker.
type MqttClient struct {
	b         *Broker
	Name      string
	connected bool
}

// NewClient creates a client of the broker.
func (b *Broker) NewClient(name string) *MqttClient { return &MqttClient{b: b, Name: name} }

func (c *MqttClient) IsConnected() bool      { return c.connected }
func (c *MqttClient) IsConnectionOpen() bool { return c.connected }
func (c *MqttClient) Connect() mqtt.Token    { c.connected = true; return &token{} }
func (c *MqttClient) Disconnect(uint) {
	c.connected = false
	c.b.mu.Lock()
	var keep []*subscription
	for _, s := range c.b.subs {
		if s.client != c {
			keep = append(keep, s)
		}
	}
	c.b.subs = keep
	c.b.mu.Unlock()
}

func (c *MqttClient) Publish(topic string, qos byte, retained bool, payload interface{}) mqtt.Token {
	var b []byte
	switch p := payload.(type) {
	case []byte:
		b = p
	case string:
		b = []byte(p)
	default:
		b = []byte(fmt.Sprint(p))
	}
	c.b.Sched.Gate("mqtt.publish:" + topic)
	c.b.mu.Lock()
	c.b.Publishes = append(c.b.Publishes, Publish{Topic: topic, Payload: string(b), By: c.Name})
	var ds []*Delivery
	subs := append([]*subscription{}, c.b.subs...)
	sort.SliceStable(subs, func(i, j int) bool { return subs[i].client.Name < subs[j].client.Name })
	for _, s := range subs {
		if s.topic == topic {
			// deliveries are numbered by publish, independent of the order in which clients subscribed
			ds = append(ds, &Delivery{Seq: len(c.b.Publishes), Sub: s, Topic: topic, Payload: b})
		}
	}
	auto := c.b.Auto
	if !auto {
		c.b.Pending = append(c.b.Pending, ds...)
	}
	c.b.mu.Unlock()
	if auto {
		for _, d := range ds {
			d := d
			go func() {
				c.b.Sched.Register(fmt.Sprintf("deliver:%s:%d", d.Sub.client.Name, d.Seq))
				c.b.Sched.Gate("mqtt.deliver:" + d.Topic)
				d.Sub.cb(d.Sub.client, &message{topic: d.Topic, payload: d.Payload})
			}()
		}
	}
	return &token{}
}

// Deliver performs one queued delivery synchronously in the calling goroutine.
func (b *Broker) Deliver(d *Delivery) {
	d.Sub.cb(d.Sub.client, &message{topic: d.Topic, payload: d.Payload})
}

// TakePending removes and returns the queued deliveries.
func (b *Broker) TakePending() []*Delivery {
	b.mu.Lock()
	defer b.mu.Unlock()
	p := b.Pending
	b.Pending = nil
	return p
}

func (c *MqttClient) Subscribe(topic string, qos byte, cb mqtt.MessageHandler) mqtt.Token {
	c.b.mu.Lock()
	dup := false
	for _, s := range c.b.subs {
		if s.client == c && s.topic == topic {
			s.cb = cb
			dup = true
		}
	}
	if !dup {
		c.b.subs = append(c.b.subs, &subscription{client: c, topic: topic, cb: cb})
	}
	c.b.mu.Unlock()
	return &token{}
}

func (c *MqttClient) SubscribeMultiple(filters map[string]byte, cb mqtt.MessageHandler) mqtt.Token {
	for t := range filters {
		c.Subscribe(t, 0, cb)
	}
	return &token{}
}

func (c *MqttClient) Unsubscribe(topics ...string) mqtt.Token { return &token{} }
func (c *MqttClient) AddRoute(string, mqtt.MessageHandler)    {}
func (c *MqttClient) OptionsReader() mqtt.ClientOptionsReader {
	return mqtt.NewClient(mqtt.NewClientOptions()).OptionsReader()
}

// Snapshot returns a copy of the recorded publishes.
func (b *Broker) Snapshot() []Publish {
	b.mu.Lock()
	defer b.mu.Unlock()
	return append([]Publish{}, b.Publishes...)
}

// ---------------------------------------------------------------------------------------------
// RPC stub
// ---------------------------------------------------------------------------------------------

// RPCFault selects what happens to the next exchanges (transport faults of DESIGN §4.3).
type RPCFault int

const (
	RPCOk RPCFault = iota
	RPCDropResponse
	RPCDupRequest
)

// Stub implements model.OrdaServiceClient by calling the real service in process. Every message is
// cloned through the protobuf wire encoding; every call gets its own context, cancelled on return.
type Stub struct {
	Svc   func() *service.OrdaService // current service (rebuilt after a crash)
	Sched *Sched
	Name  string
	mu    sync.Mutex
	Fault RPCFault
	Log   []string
	// Between, if set, runs between the two deliveries of a duplicated request (the harness drains
	// the first delivery's background work there).
	Between func()
	// Down, if set and true after a call, turns the outcome into a transport error (the server died).
	Down func() bool
	// LastReq is a copy of the last push-pull request sent through this stub.
	LastReq *model.PushPullMessage
	// inflight is the cancel function of the push-pull call being served (nil when none); GiveUp cancels it, as a
	// caller does whose deadline passes or who goes away in the middle of a call.
	inflight context.CancelFunc
	gaveUp   bool
	// Answers records, in order, what every push-pull call of this stub returned to its caller (canonical text).
	Answers []map[string]string
	// Pushes records, per pack of every push-pull call, what was sent and what came back (for the announcement oracle)
	Pushes []PushInfo
}

// PushInfo describes one pack of one push-pull exchange.
type PushInfo struct {
	Collection, Key, DUID, CUID string
	NOps                        int    // operations the request carried
	Sseq                        uint64 // end of the log according to the answer
	Refused                     bool   // error bit or transport error
}

// canonAnswer renders a push-pull answer, per datatype key, without anything that may legitimately differ between two
// runs (the packs of one answer arrive in the order their handlers finish: not part of the answer's meaning).
func canonAnswer(out *model.PushPullMessage, err error) map[string]string {
	if err != nil {
		return map[string]string{"": "rpc-error"}
	}
	packs := map[string]string{}
	for _, p := range out.PushPullPacks {
		var sb strings.Builder
		fmt.Fprintf(&sb, "[%s|%s|opt%d|cp%d:%d|era%d|%v|", p.Key, p.DUID, p.Option, p.CheckPoint.GetSseq(), p.CheckPoint.GetCseq(), p.Era, p.Type)
		for _, op := range p.Operations {
			fmt.Fprintf(&sb, "(%v %d:%d:%s:%d %s)", op.OpType, op.ID.GetEra(), op.ID.GetLamport(), op.ID.GetCUID(), op.ID.GetSeq(), string(op.Body))
		}
		sb.WriteString("]")
		packs[p.Key] += sb.String()
	}
	return packs
}

// Inflight tells whether a push-pull call of this stub is being served and has not been given up yet.
func (s *Stub) Inflight() bool {
	s.mu.Lock()
	defer s.mu.Unlock()
	return s.inflight != nil && !s.gaveUp
}

// GiveUp cancels the context of the call being served; the caller will see a Canceled error.
func (s *Stub) GiveUp() {
	s.mu.Lock()
	c := s.inflight
	if c != nil {
		s.gaveUp = true
	}
	s.mu.Unlock()
	if c != nil {
		c()
	}
}

var errGaveUp = fmt.Errorf("rpc error: code = Canceled desc = context canceled (harness: the caller gave up)")

func cloneMsg[T proto.Message](in T, out T) T {
	b, err := proto.Marshal(in)
	if err != nil {
		panic(err)
	}
	if err := proto.Unmarshal(b, out); err != nil {
		panic(err)
	}
	return out
}

func (s *Stub) takeFault() RPCFault {
	s.mu.Lock()
	defer s.mu.Unlock()
	f := s.Fault
	s.Fault = RPCOk
	return f
}

var errServerDied = fmt.Errorf("rpc error: code = Unavailable desc = harness: the server died")
var errDropped = fmt.Errorf("rpc error: code = Unavailable desc = harness: response dropped")

func (s *Stub) ProcessPushPull(ctx context.Context, in *model.PushPullMessage, _ ...grpc.CallOption) (*model.PushPullMessage, error) {
	s.Sched.Gate("rpc.request:pushpull:" + s.Name)
	fault := s.takeFault()
	s.mu.Lock()
	s.LastReq = cloneMsg(in, &model.PushPullMessage{})
	s.mu.Unlock()
	call := func() (*model.PushPullMessage, error) {
		cctx, cancel := context.WithCancel(context.Background())
		defer cancel()
		s.mu.Lock()
		s.inflight, s.gaveUp = cancel, false
		s.mu.Unlock()
		out, err := s.Svc().ProcessPushPull(cctx, cloneMsg(in, &model.PushPullMessage{}))
		s.mu.Lock()
		gave := s.gaveUp
		s.inflight, s.gaveUp = nil, false
		s.mu.Unlock()
		if gave {
			return nil, errGaveUp
		}
		return out, err
	}
	out, err := call()
	if fault == RPCDupRequest {
		if s.Between != nil {
			s.Between()
		}
		out, err = call()
	}
	s.mu.Lock()
	s.Answers = append(s.Answers, canonAnswer(out, err))
	for _, rp := range in.PushPullPacks {
		pi := PushInfo{Collection: in.Collection, Key: rp.Key, CUID: in.Cuid, NOps: len(rp.Operations), Refused: true}
		if err == nil && out != nil {
			for _, ap := range out.PushPullPacks {
				if ap.Key == rp.Key {
					pi.DUID, pi.Sseq, pi.Refused = ap.DUID, ap.CheckPoint.GetSseq(), ap.GetPushPullPackOption().HasErrorBit()
				}
			}
		}
		s.Pushes = append(s.Pushes, pi)
	}
	s.mu.Unlock()
	s.Sched.Gate("rpc.response:pushpull:" + s.Name)
	if fault == RPCDropResponse {
		return nil, errDropped
	}
	if s.Down != nil && s.Down() {
		return nil, errServerDied
	}
	if err != nil {
		return nil, err
	}
	return cloneMsg(out, &model.PushPullMessage{}), nil
}

func (s *Stub) ProcessClient(ctx context.Context, in *model.ClientMessage, _ ...grpc.CallOption) (*model.ClientMessage, error) {
	s.Sched.Gate("rpc.request:client:" + s.Name)
	cctx, cancel := context.WithCancel(context.Background())
	defer cancel()
	out, err := s.Svc().ProcessClient(cctx, cloneMsg(in, &model.ClientMessage{}))
	s.Sched.Gate("rpc.response:client:" + s.Name)
	if s.Down != nil && s.Down() {
		return nil, errServerDied
	}
	if err != nil {
		return nil, err
	}
	return cloneMsg(out, &model.ClientMessage{}), nil
}

func (s *Stub) PatchDocument(ctx context.Context, in *model.PatchMessage, _ ...grpc.CallOption) (*model.PatchMessage, error) {
	cctx, cancel := context.WithCancel(context.Background())
	defer cancel()
	out, err := s.Svc().PatchDocument(cctx, cloneMsg(in, &model.PatchMessage{}))
	if err != nil {
		return nil, err
	}
	return cloneMsg(out, &model.PatchMessage{}), nil
}

func (s *Stub) CreateCollection(ctx context.Context, in *model.CollectionMessage, _ ...grpc.CallOption) (*model.CollectionMessage, error) {
	cctx, cancel := context.WithCancel(context.Background())
	defer cancel()
	return s.Svc().CreateCollection(cctx, cloneMsg(in, &model.CollectionMessage{}))
}

func (s *Stub) ResetCollection(ctx context.Context, in *model.CollectionMessage, _ ...grpc.CallOption) (*model.CollectionMessage, error) {
	cctx, cancel := context.WithCancel(context.Background())
	defer cancel()
	return s.Svc().ResetCollection(cctx, cloneMsg(in, &model.CollectionMessage{}))
}

func (s *Stub) TestEncodingOperation(ctx context.Context, in *model.EncodingMessage, _ ...grpc.CallOption) (*model.EncodingMessage, error) {
	return s.Svc().TestEncodingOperation(ctx, cloneMsg(in, &model.EncodingMessage{}))
}

// ---------------------------------------------------------------------------------------------
// gated database connection: the gate runs in the goroutine that issues the command
// ---------------------------------------------------------------------------------------------

type gatedDialer struct {
	inner   mongofake.Dialer
	sched   *Sched
	defunct *atomic.Bool // the process that owned this dialer died: it reaches nothing any more
}

func (d gatedDialer) DialContext(ctx context.Context, network, address string) (net.Conn, error) {
	if d.defunct != nil && d.defunct.Load() {
		return nil, errors.New("sysx: dialer of a dead server process")
	}
	c, err := d.inner.DialContext(ctx, network, address)
	if err != nil {
		return nil, err
	}
	return &gatedConn{Conn: c, sched: d.sched}, nil
}

type gatedConn struct {
	net.Conn
	sched *Sched
}

// commandOf extracts "name:collection#digest" of an OP_MSG wire message ("" for anything else). The
// digest covers the command without its session / cluster-time fields, so that two goroutines issuing
// different commands of the same kind get different, schedule-independent labels.
func commandOf(b []byte) string {
	if len(b) < 16+4+1+4+2 {
		return ""
	}
	if binary.LittleEndian.Uint32(b[12:]) != 2013 || b[20] != 0 {
		return ""
	}
	doc := b[21:]
	if len(doc) < 5 {
		return ""
	}
	dl := int(binary.LittleEndian.Uint32(doc))
	if dl > len(doc) || dl < 5 {
		return ""
	}
	h := fnv.New64a()
	name, coll := "", ""
	raw := bson.Raw(doc[:dl])
	elems, err := raw.Elements()
	if err != nil {
		return ""
	}
	for i, e := range elems {
		k := e.Key()
		if i == 0 {
			name = k
			if s, ok := e.Value().StringValueOK(); ok {
				coll = s
			}
		}
		switch k {
		case "lsid", "$clusterTime", "txnNumber", "$readPreference", "autocommit", "startTransaction":
			continue
		}
		h.Write([]byte(k))
		h.Write(e.Value().Value)
	}
	// document sequences (updates / documents / deletes) follow section 0; times in them are virtual
	rest := doc[dl:]
	h.Write(rest)
	return fmt.Sprintf("%s:%s#%x", name, coll, h.Sum64()&0xffffff)
}

func (c *gatedConn) Write(b []byte) (int, error) {
	if c.sched != nil && c.sched.On {
		cmd := commandOf(b)
		switch strings.ToLower(strings.SplitN(cmd, ":", 2)[0]) {
		case "", "hello", "ismaster", "ping", "endsessions", "killcursors":
		default:
			c.sched.Gate("db." + cmd)
		}
	}
	return c.Conn.Write(b)
}
