// Package sysx runs the whole orda system (real OrdaService + real mongo-driver over mongofake,
// real Notifier over an MQTT stand-in, real SDK clients over an RPC stub) inside one
// testing/synctest bubble, with gates at which a controlled scheduler can park activities.
package sysx

import (
	"bytes"
	"fmt"
	"runtime"
	"sort"
	"strconv"
	"strings"
	"sync"
)

// gid returns the id of the calling goroutine and, for goroutines not yet known, how it was created.
func gid() (id int64, createdBy string, parent int64) {
	buf := make([]byte, 1<<14)
	n := runtime.Stack(buf, false)
	buf = buf[:n]
	// "goroutine 123 [running]:\n"
	f := bytes.Fields(buf[:bytes.IndexByte(buf, '\n')])
	id, _ = strconv.ParseInt(string(f[1]), 10, 64)
	if i := bytes.LastIndex(buf, []byte("created by ")); i >= 0 {
		line := buf[i+len("created by "):]
		if j := bytes.IndexByte(line, '\n'); j >= 0 {
			line = line[:j]
		}
		s := string(line)
		if k := strings.Index(s, " in goroutine "); k >= 0 {
			parent, _ = strconv.ParseInt(strings.TrimSpace(s[k+len(" in goroutine "):]), 10, 64)
			s = s[:k]
		}
		if k := strings.LastIndex(s, "/"); k >= 0 {
			s = s[k+1:]
		}
		createdBy = s
	}
	return
}

// Parked is a goroutine waiting at a gate.
type Parked struct {
	Activity string
	Label    string
	release  chan struct{}
}

// Sched is the gate registry. In pass-through mode gates do nothing.
type Sched struct {
	mu      sync.Mutex
	On      bool
	names   map[int64]string // goroutine id -> activity name
	kids    map[string]int   // (parent activity + creator) -> children named so far
	parked  map[string]*Parked
	newcome []*newcomer
	Trace   []string
}

type newcomer struct {
	gid       int64
	createdBy string
	parent    int64
	label     string
	p         *Parked
}

// NewSched creates a scheduler in pass-through mode.
func NewSched() *Sched {
	return &Sched{names: map[int64]string{}, kids: map[string]int{}, parked: map[string]*Parked{}}
}

// Register names the calling goroutine (harness-started activities).
func (s *Sched) Register(name string) {
	id, _, _ := gid()
	s.mu.Lock()
	s.names[id] = name
	s.mu.Unlock()
}

// Exempt marks the calling goroutine (the explorer itself) as never parked.
func (s *Sched) Exempt() {
	id, _, _ := gid()
	s.mu.Lock()
	s.names[id] = "@explorer"
	s.mu.Unlock()
}

// Gate parks the calling goroutine until the explorer releases it (no-op in pass-through mode).
func (s *Sched) Gate(label string) {
	if s == nil || !s.On {
		return
	}
	id, createdBy, parent := gid()
	s.mu.Lock()
	if n, ok := s.names[id]; ok && strings.HasPrefix(n, "@") {
		s.mu.Unlock()
		return
	}
	p := &Parked{Label: label, release: make(chan struct{})}
	if name, ok := s.names[id]; ok {
		p.Activity = name
		s.parked[name] = p
	} else {
		s.newcome = append(s.newcome, &newcomer{gid: id, createdBy: createdBy, parent: parent, label: label, p: p})
	}
	s.mu.Unlock()
	<-p.release
}

// settle names the goroutines that reached their first gate since the last call: children are named
// parent/creator#k, where newcomers of the same parent and creator are ordered by their gate label.
// Call only when the bubble is quiescent.
func (s *Sched) settle() {
	s.mu.Lock()
	defer s.mu.Unlock()
	if len(s.newcome) == 0 {
		return
	}
	progress := true
	for progress && len(s.newcome) > 0 {
		progress = false
		groups := map[string][]*newcomer{}
		for _, n := range s.newcome {
			pn, ok := s.names[n.parent]
			if ok && strings.HasPrefix(pn, "@") {
				// started by the harness itself during the setup (a client's notification loop): a background
				// activity of its own, gated like every other (only the "@" goroutines themselves are exempt)
				pn = "bg"
			}
			if !ok {
				if n.parent == 0 {
					pn = "root"
				} else {
					pn = "?"
				}
			}
			groups[pn+"/"+n.createdBy] = append(groups[pn+"/"+n.createdBy], n)
		}
		var rest []*newcomer
		keys := make([]string, 0, len(groups))
		for k := range groups {
			keys = append(keys, k)
		}
		sort.Strings(keys)
		for _, k := range keys {
			g := groups[k]
			if strings.HasPrefix(k, "?/") && len(s.newcome) > 0 {
				// parent unknown yet (it may itself be a newcomer of this round): retry after the others
				hasKnownLater := false
				for _, n := range g {
					for _, o := range s.newcome {
						if o.gid == n.parent {
							hasKnownLater = true
						}
					}
				}
				if hasKnownLater {
					rest = append(rest, g...)
					continue
				}
			}
			sort.SliceStable(g, func(i, j int) bool { return g[i].label < g[j].label })
			for _, n := range g {
				s.kids[k]++
				name := fmt.Sprintf("%s#%d", k, s.kids[k])
				s.names[n.gid] = name
				n.p.Activity = name
				s.parked[name] = n.p
				progress = true
			}
		}
		s.newcome = rest
	}
	for _, n := range s.newcome { // unresolved: name by creator only
		k := "?/" + n.createdBy
		s.kids[k]++
		name := fmt.Sprintf("%s#%d", k, s.kids[k])
		s.names[n.gid] = name
		n.p.Activity = name
		s.parked[name] = n.p
	}
	s.newcome = nil
}

// Menu returns the parked activities in canonical order (call when quiescent).
func (s *Sched) Menu() []*Parked {
	s.settle()
	s.mu.Lock()
	defer s.mu.Unlock()
	out := make([]*Parked, 0, len(s.parked))
	for _, p := range s.parked {
		out = append(out, p)
	}
	sort.Slice(out, func(i, j int) bool { return out[i].Activity < out[j].Activity })
	return out
}

// Release lets the named activity pass its gate.
func (s *Sched) Release(activity string) bool {
	s.mu.Lock()
	p, ok := s.parked[activity]
	if ok {
		delete(s.parked, activity)
		s.Trace = append(s.Trace, activity+" @ "+p.Label)
	}
	s.mu.Unlock()
	if ok {
		close(p.release)
	}
	return ok
}

// ReleaseAll switches to pass-through and frees every parked goroutine (end of an execution).
func (s *Sched) ReleaseAll() {
	s.mu.Lock()
	s.On = false
	ps := s.parked
	s.parked = map[string]*Parked{}
	nc := s.newcome
	s.newcome = nil
	s.mu.Unlock()
	for _, p := range ps {
		close(p.release)
	}
	for _, n := range nc {
		close(n.p.release)
	}
}
