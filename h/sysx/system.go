package sysx

import (
	gocontext "context"
	"encoding/json"
	"fmt"
	"sync"
	"sync/atomic"
	"time"

	octx "github.com/orda-io/orda/client/pkg/context"
	"github.com/orda-io/orda/client/pkg/errors"
	"github.com/orda-io/orda/client/pkg/iface"
	"github.com/orda-io/orda/client/pkg/model"
	"github.com/orda-io/orda/client/pkg/orda"
	"github.com/orda-io/orda/server/managers"
	"github.com/orda-io/orda/server/mongodb"
	"github.com/orda-io/orda/server/notification"
	"github.com/orda-io/orda/server/redis"
	"github.com/orda-io/orda/server/service"
	"github.com/orda-io/orda/server/utils"
	"go.mongodb.org/mongo-driver/mongo/options"

	"verif/h/mongofake"
)

// System is one orda deployment inside a bubble.
type System struct {
	DB     *mongofake.Server
	Sched  *Sched
	Broker *Broker
	Mgrs   *managers.Managers
	Repo   *mongodb.RepositoryMongo
	svc    *service.OrdaService
	mu     sync.Mutex
	Ctx    iface.OrdaContext
	Cls    []*ClientH
	DBName string
	// a crashed server process cannot be killed inside the bubble: its database client is cut off
	// (defunct dialer) and only disconnected at Shutdown, after its goroutines have run out
	defunct *atomic.Bool
	zombies []*mongodb.RepositoryMongo
}

// NewSystem creates the stand-ins (no server yet).
func NewSystem() *System {
	s := &System{DB: mongofake.New(), Sched: NewSched(), DBName: "orda_verif"}
	s.Broker = NewBroker(s.Sched)
	s.Ctx = octx.NewOrdaContext(gocontext.Background(), "V")
	return s
}

// Svc returns the current service instance.
func (s *System) Svc() *service.OrdaService {
	s.mu.Lock()
	defer s.mu.Unlock()
	return s.svc
}

// StartServer (re)builds repository, managers and service over the (surviving) database.
func (s *System) StartServer() error {
	utils.VerifResetLocalLocks()
	defunct := &atomic.Bool{}
	opt := options.Client().ApplyURI("mongodb://fake.invalid:27017/?directConnection=true").
		SetDialer(gatedDialer{inner: mongofake.Dialer{S: s.DB}, sched: s.Sched, defunct: defunct}).
		SetServerSelectionTimeout(5 * time.Second).
		SetHeartbeatInterval(300 * time.Second).
		SetMaxPoolSize(32)
	repo, err := mongodb.NewWithClientOptions(s.Ctx, opt, s.DBName)
	if err != nil {
		return fmt.Errorf("repository: %v", err)
	}
	red, err := redis.New(s.Ctx, nil)
	if err != nil {
		return fmt.Errorf("redis: %v", err)
	}
	mgrs := &managers.Managers{
		Mongo:    repo,
		Notifier: notification.NewNotifierWithClient(s.Broker.NewClient("server")),
		Redis:    red,
	}
	s.mu.Lock()
	s.Repo, s.Mgrs, s.defunct = repo, mgrs, defunct
	s.svc = service.NewOrdaService(mgrs)
	s.mu.Unlock()
	return nil
}

// CrashServer models the death of the server process: nothing it still does reaches the database.
// (Disconnecting its driver client while one of its goroutines waits in server selection makes
// mongo-driver 1.10.1 spin on the closed subscription channel, which virtual time never ends.)
func (s *System) CrashServer() {
	s.mu.Lock()
	if s.Repo != nil {
		s.defunct.Store(true)
		s.zombies = append(s.zombies, s.Repo)
		s.Repo = nil
	}
	s.svc = nil
	s.mu.Unlock()
}

// StopServer disconnects the repository.
func (s *System) StopServer() {
	s.mu.Lock()
	repo := s.Repo
	s.Repo = nil
	s.mu.Unlock()
	if repo != nil {
		repo.Close(s.Ctx)
	}
}

// MakeCollection creates a collection through the service.
func (s *System) MakeCollection(name string) error {
	_, err := s.Svc().CreateCollection(gocontext.Background(), &model.CollectionMessage{Collection: name})
	return err
}

// ClientH is one SDK client with its transport stub and recorded handler events.
type ClientH struct {
	C         orda.VerifClient
	Stub      *Stub
	Name      string
	Connected bool
	mu        sync.Mutex
	// handler events per datatype key
	States  map[string][]string
	Errs    map[string][]string
	Remotes map[string][]string
	// Seen: what the application sees of the datatype (ToJSON) at the moment it is told "-> SUBSCRIBED"; recorded
	// only when SeeOnSubscribe is set (explicit-state runs, where nothing else runs next to the handler)
	Seen           map[string][]string
	SeeOnSubscribe bool
}

// NewClient builds a real SDK client bound to the in-process service.
func (s *System) NewClient(collection, alias string, syncType model.SyncType) *ClientH {
	h := &ClientH{Name: alias, States: map[string][]string{}, Errs: map[string][]string{}, Remotes: map[string][]string{}, Seen: map[string][]string{}}
	h.Stub = &Stub{Svc: s.Svc, Sched: s.Sched, Name: alias, Down: func() bool { return s.DB.Dead() || s.Svc() == nil }}
	conf := &orda.ClientConfig{ServerAddr: "fake", NotificationAddr: "fake", CollectionName: collection, SyncType: syncType}
	h.C = orda.NewClientForVerif(conf, alias, h.Stub, s.Broker.NewClient(alias))
	s.Cls = append(s.Cls, h)
	return h
}

// Connect registers the client with the server (ProcessClient) and starts its notification loop.
func (h *ClientH) Connect() error {
	if err := h.C.VerifConnect(); err != nil {
		return err
	}
	h.Connected = true
	return nil
}

// Handlers returns orda handlers recording every event for the given key.
func (h *ClientH) Handlers(key string) *orda.Handlers {
	return orda.NewHandlers(
		func(dt orda.Datatype, old, new model.StateOfDatatype) {
			seen := ""
			if h.SeeOnSubscribe && new == model.StateOfDatatype_SUBSCRIBED {
				b, _ := json.Marshal(dt.ToJSON())
				seen = string(b)
			}
			h.mu.Lock()
			h.States[key] = append(h.States[key], fmt.Sprintf("%v->%v", old, new))
			if seen != "" {
				h.Seen[key] = append(h.Seen[key], seen)
			}
			h.mu.Unlock()
		},
		func(dt orda.Datatype, opList []interface{}) {
			ids := flattenOpIDs(opList)
			h.mu.Lock()
			h.Remotes[key] = append(h.Remotes[key], ids...)
			h.mu.Unlock()
		},
		func(dt orda.Datatype, errs ...errors.OrdaError) {
			h.mu.Lock()
			for _, e := range errs {
				h.Errs[key] = append(h.Errs[key], fmt.Sprintf("%d", e.GetCode()))
			}
			h.mu.Unlock()
		})
}

func (h *ClientH) Lock()   { h.mu.Lock() }
func (h *ClientH) Unlock() { h.mu.Unlock() }

// Events returns a copy of the recorded events of a key.
func (h *ClientH) Events(key string) (states, errs, remotes []string) {
	h.mu.Lock()
	defer h.mu.Unlock()
	return append([]string{}, h.States[key]...), append([]string{}, h.Errs[key]...), append([]string{}, h.Remotes[key]...)
}

// Shutdown ends the execution: frees parked goroutines, closes clients, server and database connections.
func (s *System) Shutdown() {
	s.Sched.ReleaseAll()
	for _, c := range s.Cls {
		if !c.Connected {
			continue
		}
		func() {
			defer func() { recover() }()
			c.C.VerifClose()
		}()
	}
	if len(s.zombies) > 0 {
		time.Sleep(10 * time.Minute) // every command of a dead process fails within the selection timeout
		for _, z := range s.zombies {
			z.Close(s.Ctx)
		}
		s.zombies = nil
	}
	s.StopServer()
	s.DB.CloseAll()
}

// flattenOpIDs extracts "cuid:seq" of every operation reported to a remote-operation handler
// (transaction headers are iface.Operation values, the rest are lists of Operation.ToJSON() values).
func flattenOpIDs(opList []interface{}) []string {
	var ids []string
	var walk func(e interface{})
	walk = func(e interface{}) {
		switch x := e.(type) {
		case iface.Operation:
			ids = append(ids, fmt.Sprintf("%s:%d", x.GetID().CUID, x.GetID().Seq))
		case []interface{}:
			for _, y := range x {
				walk(y)
			}
		case nil:
		default:
			b, err := json.Marshal(x)
			if err != nil {
				return
			}
			var o struct {
				ID struct {
					CUID string
					Seq  uint64
				}
			}
			if json.Unmarshal(b, &o) == nil && o.ID.CUID != "" {
				ids = append(ids, fmt.Sprintf("%s:%d", o.ID.CUID, o.ID.Seq))
			}
		}
	}
	for _, e := range opList {
		walk(e)
	}
	return ids
}
