package main

import (
	"fmt"
	"github.com/orda-io/orda/client/pkg/iface"
	"github.com/orda-io/orda/client/pkg/orda"
	_ "github.com/orda-io/orda/server/service"
)

func main() {
	c := orda.NewClient(orda.NewLocalClientConfig("c"), "a")
	l := c.CreateList("k", nil)
	l.Insert(0, "x")
	fmt.Println(l.ToJSON(), len(l.(iface.Datatype).CreatePushPullPack().Operations))
}
