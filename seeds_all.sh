#!/bin/bash
# seeds_all.sh [ids...]  - regression over the stored seeded changes: each patch is applied to a scratch worktree of /repo HEAD
# and the quick tier of the check of its own property is run (from this copy of /verif, VERIF_DIR); one line per seed
set -u
V=${VERIF_DIR:-/verif}
ids=${*:-$(ls $V/seeded)}
for id in $ids; do
  p=$V/seeded/$id/patch.diff; c=${id:0:3}
  wt=/var/tmp/alt/s-$id; out=/var/tmp/alt-out/s-$id
  rm -rf $wt $out; git -C /repo worktree prune
  git -C /repo worktree add -q --detach $wt HEAD || continue
  if ! (cd $wt && git apply $p) 2>/dev/null; then echo "$id: patch does not apply to the current HEAD"; git -C /repo worktree remove --force $wt; continue; fi
  (cd $V && VERIF_DIR=$V VERIF_ALT_REPO=$wt VERIF_ALT_OUT=$out ./verif check $c quick > /var/tmp/seedreg.$id.log 2>&1); rc=$?
  echo "$id $c rc=$rc viol=$(grep -c '^VIOLATION' /var/tmp/seedreg.$id.log) $(grep -E '^(VIOLATION|BUILD|HARNESS)' /var/tmp/seedreg.$id.log | head -1 | sed 's/.*sig=//' | cut -c1-120)"
  git -C /repo worktree remove --force $wt; rm -rf $out
done
echo ALL-DONE
